#!/venv/bin/python
"""Regenerate the two tables of DESIGN.md section 9 from sensitivity.json (tools/mutants.py) and seeded/*/meta.json
(+ seeds_status.json written by tools/seeds_all.sh --json).  usage: tools/fill_design.py"""
import glob, json, os, re

root = '/verif'
s = open(f'{root}/DESIGN.md').read()


def block(name, body):
    global s
    b, e = f'<!-- {name}_BEGIN -->', f'<!-- {name}_END -->'
    if f'@@{name}@@' in s:
        s = s.replace(f'@@{name}@@', f'{b}\n{body}\n{e}')
    else:
        s = re.sub(re.escape(b) + r'.*?' + re.escape(e), lambda m: f'{b}\n{body}\n{e}', s, flags=re.S)


def esc(t):
    return str(t).replace('|', '\\|').replace('\n', ' ')


rows = ['| prop | mutant (file) | outcome | first failing clause/tag | remark |', '|------|---------------|---------|--------------------------|--------|']
if os.path.exists(f'{root}/sensitivity.json'):
    muts = json.load(open(f'{root}/sensitivity.json'))['mutants']
    for m in muts:
        rem = '' if m.get('expect', 'detect') == 'detect' else m['expect']
        tag = (m.get('first_tags') or [''])[0].replace('clause=', '').replace(' tag=', ' / ')
        rows.append(f"| {m['prop']} | {esc(m['name'])} ({os.path.basename(m['file'])}) | {m['outcome']} | {esc(tag)[:90]} | {esc(rem)} |")
    det = sum(1 for m in muts if m['outcome'] == 'DETECTED')
    eq = sum(1 for m in muts if m.get('expect', 'detect') != 'detect')
    rows.append('')
    rows.append(f'{len(muts)} mutants: {det} detected, {len(muts) - det} not detected of which {eq} are documented as equivalent (see remark).')
block('MUTANT_TABLE', '\n'.join(rows))

status = json.load(open(f'{root}/seeds_status.json')) if os.path.exists(f'{root}/seeds_status.json') else {}
rows = ['| seed | what the agent changed (condition needed) | quick check today | history |', '|------|-------------------------------------------|-------------------|---------|']
for d in sorted(glob.glob(f'{root}/seeded/*')):
    name = os.path.basename(d)
    try:
        meta = json.load(open(f'{d}/meta.json'))
    except Exception:
        continue
    summ = esc(meta.get('summary') or '')[:230]
    conf = meta.get('confirmed_by_me') or {}
    hist = esc(meta.get('history') or next((v for k, v in conf.items() if k.startswith('check_')), ''))[:330]
    rows.append(f"| {name} | {summ} | {status.get(name, '')} | {hist} |")
block('SEED_TABLE', '\n'.join(rows))
open(f'{root}/DESIGN.md', 'w').write(s)
print('DESIGN.md tables updated')
