"""C03 - the reported residual is the true collocation defect; stopping is sound.

(a) real runs: at every post_sweep / post_iteration / post_step callback a recorder hook recomputes
    u0 + dt*Q*F(U) + tau - U from the node values the level holds at that moment (F re-evaluated through the problem),
    takes the norm in the configured residual type and compares with level.status.residual and with the logged stats.
(b) scripted residual sequences (scripted-residual sweeper): every below/above-tolerance sequence up to maxiter 5 is
    enumerated (1-3 steps per block, both coupling modes, all_to_done), longer/non-monotone ones are generated.
    From the event stream: a step finishes only if (residual <= restol after >= 1 sweep) or iter >= maxiter;
    iter never exceeds maxiter; logged niter == number of pre_iteration callbacks.
"""

import itertools

import numpy as np
from hypothesis import strategies as st

from vlib.runner import Clause
from pySDC.core.convergence_controller import ConvergenceController
from vlib import strats as S
from vlib import runs as R
from vlib import fixtures as F

from pySDC.helpers.stats_helper import get_sorted, filter_stats
from pySDC.implementations.sweeper_classes.generic_implicit import generic_implicit
from pySDC.implementations.sweeper_classes.imex_1st_order import imex_1st_order
from pySDC.implementations.sweeper_classes.imex_1st_order_mass import imex_1st_order_mass
from pySDC.implementations.transfer_classes.TransferMesh_NoCoarse import mesh_to_mesh as nocoarse

PROPERTY = 'C03'
LEVEL = 'exploration'
RULE = (
    'real-runs clause: Hypothesis draws sweeper (implicit, IMEX, IMEX-mass), preconditioner, nodes, 1-2 levels, 1-4 parallel steps, coupling, '
    'residual type (4), (restol, maxiter) so that the tolerance is reached at iteration 0,1,..,never, initial guess, forcing; scripted clause: exhaustive '
    '{below,above}^(maxiter+1) residual tables for maxiter <= 4 (quick) / 5 x 1-3 steps x coupling modes plus generated long non-monotone tables. '
    'Non-trivial = a step that stops by residual at iteration >= 1 (real) / a table with a below-tolerance value followed by an above-tolerance one (scripted).'
)
ASSUMPTIONS = [
    'the recorder evaluates f through the problem object (fixture problems are pure functions of (u,t))',
    'scripted residuals overwrite level-0 status.residual after the real computation; no force flags are injected here',
]


def _np(x):
    return np.array(x, dtype=float)


def true_residual(L, mass=False):
    """norm-per-node of u0 + dt*Q*F(U) + tau - U with F re-evaluated from the node values held now"""
    P = L.prob
    coll = L.sweep.coll
    M = coll.num_nodes
    Q = np.asarray(coll.Qmat, float)
    if any(x is None for x in L.u):
        return None
    Fv = [None] + [P.eval_f(L.u[m], L.time + L.dt * coll.nodes[m - 1]) for m in range(1, M + 1)]

    def full(f):
        a = np.asarray(f)
        return a.sum(axis=0) if hasattr(type(f), 'components') else a

    norms = []
    for m in range(1, M + 1):
        if mass:
            d = np.asarray(P.apply_mass_matrix(L.u[0] - L.u[m])).copy() if L.level_index == 0 else np.asarray(L.u[0]) - np.asarray(P.apply_mass_matrix(L.u[m]))
        else:
            d = np.asarray(L.u[0]) - np.asarray(L.u[m])
        d = d.astype(complex) if np.iscomplexobj(d) else d.astype(float)
        for j in range(1, M + 1):
            d = d + L.dt * Q[m, j] * full(Fv[j])
        if L.tau[m - 1] is not None:
            d = d + np.asarray(L.tau[m - 1])
        norms.append(float(np.abs(d).max()))
    return norms


def in_type(norms, rt, u0abs):
    if rt == 'full_abs':
        return max(norms)
    if rt == 'last_abs':
        return norms[-1]
    if rt == 'full_rel':
        return max(norms) / u0abs
    return norms[-1] / u0abs


# ----------------------------------------------------------------------------------------------- (a) real runs
def build_real(case):
    sw = case['sweeper']
    n = case['n']
    sp = {'num_nodes': case['num_nodes'], 'quad_type': case['quad_type'], 'node_type': case['node_type'], 'QI': case['QI'], 'initial_guess': case['initial_guess']}
    if sw == 'generic_implicit':
        pc, pp, sc = F.LinVec, {'A': _np(case['A']), 'g': case['g']}, generic_implicit
    elif sw == 'imex_1st_order':
        pc, pp, sc = F.LinVecIMEX, {'AI': _np(case['A']), 'AE': _np(case['A2']), 'gI': case['g'], 'gE': case['g2']}, imex_1st_order
        sp['QE'] = 'EE'
    else:
        pc, pp, sc = F.LinVecMass, {'AI': _np(case['A']), 'AE': _np(case['A2']), 'gI': case['g'], 'gE': case['g2'], 'M': _np(case['Mass'])}, imex_1st_order_mass
        sp['QE'] = 'EE'
    desc = {
        'problem_class': pc, 'problem_params': pp, 'sweeper_class': sc, 'sweeper_params': sp,
        'level_params': {'dt': case['dt'], 'restol': case['restol'], 'residual_type': case['residual_type'], 'nsweeps': case['nsweeps']},
        'step_params': {'maxiter': case['maxiter']},
    }  # fmt: skip
    if case['levels'] == 2:
        desc['space_transfer_class'] = nocoarse
        lo = 2 if case['quad_type'] in ('LOBATTO', 'RADAU-LEFT') else 1
        desc['sweeper_params']['num_nodes'] = [case['num_nodes'], max(lo, case['num_nodes'] - 1)]
        desc['level_params']['nsweeps'] = [case['nsweeps'], 1]
    return desc


def prop_real(case, r):
    desc = build_real(case)
    P = case['num_procs']
    rt = case['residual_type']
    mass = case['sweeper'] == 'imex_1st_order_mass'
    r.label(case['sweeper'], rt, f'levels{case["levels"]}', f'procs{P}')
    events = []

    def capture(name, step, lvl):
        if name not in ('post_sweep', 'post_iteration', 'post_step', 'pre_iteration', 'pre_step'):
            return None
        L = step.levels[lvl if lvl is not None else 0]
        out = {}
        if name in ('post_sweep', 'post_iteration', 'post_step'):
            norms = true_residual(L, mass=mass)
            if norms is not None:
                u0abs = float(np.abs(np.asarray(L.u[0])).max())
                out['true'] = in_type(norms, L.params.residual_type, u0abs) if u0abs > 0 or not rt.endswith('rel') else None
                out['true_full'] = max(norms)
        events.append({'ev': name, 'slot': step.status.slot, 'lvl': lvl, 'iter': step.status.iter, 'res': L.status.residual, 'time': L.time, **out})
        return None

    F.Recorder.reset(capture=capture)
    try:
        ctrl = R.make_controller(P, desc, hooks=[F.Recorder], mssdc_jac=case['jac'], all_to_done=case['all_to_done'], predict_type=case.get('predict'))
    except (AssertionError, NotImplementedError):
        r.discard('preconditioner rejected')
        return
    prob = ctrl.MS[0].levels[0].prob
    u0 = prob.dtype_u(prob.init)
    u0[:] = np.resize(_np(case['u0']), u0.shape)
    Tend = case['t0'] + case['dt'] * P * case['nblocks'] - 0.3 * case['dt']
    try:
        uend, stats = ctrl.run(u0=u0, t0=case['t0'], Tend=Tend)
    except ZeroDivisionError:
        if case['residual_type'].endswith('rel'):
            r.discard('relative residual undefined: a step start value is exactly zero')
            return
        raise
    restol, maxiter = case['restol'], case['maxiter']
    scale_floor = 1e-13

    stopped_by_res_late = False
    # (1) reported == true at every callback
    for e in events:
        # before the first sweep the 'copy'/'zero' guesses store f values that are not F(U) by construction
        # (f(u0,t0) resp. 0): the identity is asserted from the first sweep on, and at iteration 0 for 'spread'
        if e['iter'] == 0 and e['ev'] != 'post_sweep' and case['initial_guess'] != 'spread':
            continue
        if 'true' in e and e['true'] is not None and e['res'] is not None and np.isfinite(e['true']):
            tol = 1e-10 * max(e['true'], e['res']) + scale_floor * max(1.0, e['true_full'])
            r.close(abs(e['res'] - e['true']), tol, f'residual-{e["ev"]}', lambda: f'{case["sweeper"]} {rt} slot {e["slot"]} level {e["lvl"]} iter {e["iter"]}: reported {e["res"]!r}, recomputed {e["true"]!r}')
    # (2) stopping soundness per step attempt
    attempts = []
    cur = {}
    for e in events:
        if e['ev'] == 'pre_step':
            cur[e['slot']] = {'slot': e['slot'], 'time': e['time'], 'pre_it': 0, 'sweeps': 0, 'post': None}
            attempts.append(cur[e['slot']])
        elif e['slot'] in cur:
            a = cur[e['slot']]
            if e['ev'] == 'pre_iteration':
                a['pre_it'] += 1
            elif e['ev'] == 'post_sweep' and e['lvl'] == 0:
                a['sweeps'] += 1
            elif e['ev'] == 'post_step':
                a['post'] = e
    niter_stats = {(round(t, 12)): v for t, v in get_sorted(stats, type='niter', sortby='time')}
    res_stats = {(round(t, 12)): v for t, v in get_sorted(stats, type='residual_post_step', sortby='time')}
    for a in attempts:
        e = a['post']
        if not r.check(e is not None, 'step-without-post_step', f'slot {a["slot"]} t={a["time"]}'):
            continue
        k = e['iter']
        r.check(k <= maxiter, 'iter-exceeds-maxiter', f'iter {k} > maxiter {maxiter}')
        r.check(k == a['pre_it'], 'iter-vs-callbacks', f'status.iter {k} but {a["pre_it"]} pre_iteration callbacks')
        true_at_end = e.get('true')
        by_budget = k >= maxiter
        if not by_budget:
            ok = true_at_end is not None and true_at_end <= restol * (1 + 1e-9) + scale_floor
            r.check(ok, 'finished-above-tolerance', f'slot {a["slot"]} finished at iter {k} < maxiter {maxiter} with true residual {true_at_end!r} > restol {restol!r} (reported {e["res"]!r})')
            r.check(a['sweeps'] >= 1 or case['levels'] > 1 and case.get('predict') == 'fine_only', 'finished-without-sweep', f'slot {a["slot"]} t={a["time"]!r} finished at iter {k} with {a["sweeps"]} sweeps (reported residual {e["res"]!r})')
            if k >= 1:
                stopped_by_res_late = True
        key = round(a['time'], 12)
        r.check(niter_stats.get(key) == k, 'logged-niter', f't={a["time"]!r}: logged niter {niter_stats.get(key)!r}, performed {k}')
        if key in res_stats and e['res'] is not None:
            r.check(res_stats[key] == e['res'], 'logged-residual', f't={a["time"]!r}: logged {res_stats[key]!r} vs status {e["res"]!r}')
    if stopped_by_res_late:
        r.nontrivial([case['sweeper'], rt, case['levels'], P, case['jac'], case['all_to_done'], case['QI'], case['quad_type'], case['num_nodes'], case['initial_guess'], case['maxiter'], case['restol']])


@st.composite
def real_cases(draw):
    sweeper = draw(st.sampled_from(['generic_implicit', 'generic_implicit', 'imex_1st_order', 'imex_1st_order_mass']))
    P = draw(st.integers(1, 4))
    levels = 1 if sweeper == 'imex_1st_order_mass' else draw(st.sampled_from([1, 1, 2]))
    need_right = (levels > 1 and P > 1) or sweeper == 'imex_1st_order_mass'
    ns = draw(S.node_sets(max_nodes=4, need_right=need_right))
    n = draw(st.integers(1, 3))
    Bm = np.array(draw(S.mat(n)))
    rt = draw(st.sampled_from(['full_abs', 'last_abs', 'full_rel', 'last_rel']))
    case = {
        'sweeper': sweeper, 'num_procs': P, 'levels': levels, 'node_type': ns['node_type'], 'quad_type': ns['quad_type'], 'num_nodes': max(ns['num_nodes'], 2 if levels > 1 else 1),
        'n': n, 'A': S.shape_matrix(draw(S.mat(n)), 'stable'), 'A2': S.shape_matrix(draw(S.mat(n)), 'rot', scale=0.3), 'g': draw(S.forcing(n)), 'g2': draw(S.forcing(n)),
        'Mass': (np.eye(n) + 0.2 * (Bm @ Bm.T) / n).tolist(), 'QI': draw(st.sampled_from(['IE', 'LU', 'MIN-SR-S', 'TRAP'])),
        'initial_guess': draw(st.sampled_from(['spread', 'copy', 'zero'])), 'residual_type': rt,
        'restol': draw(st.sampled_from([1e-2, 1e-4, 1e-6, 1e-9, 1e-13, 1e3])), 'maxiter': draw(st.integers(1, 12)),
        'dt': draw(st.sampled_from([0.01, 0.05, 0.2, 0.5])), 't0': draw(S.small_float(-1, 2)), 'nblocks': draw(st.integers(1, 2)),
        'jac': draw(st.booleans()), 'all_to_done': draw(st.integers(0, 3)) == 0, 'nsweeps': draw(st.integers(1, 2)),
        'predict': draw(st.sampled_from([None, 'fine_only', 'pfasst_burnin'])) if levels > 1 else None,
        'u0': draw(S.vec(n)),
    }  # fmt: skip
    if rt.endswith('rel'):
        if max(abs(x) for x in case['u0']) < 0.05:
            case['u0'] = [1.0] + list(case['u0'][1:])
        if case['initial_guess'] == 'zero':
            case['initial_guess'] = 'spread'
    return case


# ----------------------------------------------------------------------------------------------- (b) scripted sequences
def prop_scripted(case, r):
    P, K = case['num_procs'], case['maxiter']
    nblocks = case.get('nblocks', 1)
    default = case.get('default', 1.0)
    table = {}
    seqs = case['table']  # one sequence per global step index (block*P + slot)
    for i, seq in enumerate(seqs):
        for k, v in enumerate(seq):
            table[('t', round(0.1 * i, 9), k)] = float(v)
    desc = R.scalar_description(lam=-1.0, dt=0.1, maxiter=K, restol=0.5, num_nodes=2, sweeper=R.ScriptedImplicit)
    events = []

    def capture(name, step, lvl):
        if name in ('pre_step', 'pre_iteration', 'post_sweep', 'post_iteration', 'post_step'):
            events.append((name, round(step.levels[0].time, 9), step.status.iter, step.levels[0].status.residual, step.status.slot))

    F.Recorder.reset(capture=capture)
    ctrl = R.make_controller(P, desc, hooks=[F.Recorder], mssdc_jac=case['jac'], all_to_done=case['all_to_done'])
    R.bind_scripted(ctrl, R.ScriptedImplicit, table, default=default)
    prob = ctrl.MS[0].levels[0].prob
    u0 = prob.dtype_u(prob.init)
    u0[:] = 1.0
    nsteps = P * nblocks
    uend, stats = ctrl.run(u0=u0, t0=0.0, Tend=0.1 * nsteps - 0.03)
    r.label(f'procs{P}', f'maxiter{K}', 'jacobi' if case['jac'] else 'gauss-seidel', 'all_to_done' if case['all_to_done'] else 'individual', f'blocks{nblocks}')

    def val(i, k):
        return table.get(('t', round(0.1 * i, 9), k), default)

    nontriv = any(any(val(i, k) <= 0.5 < val(i, k + 1) for k in range(K)) for i in range(nsteps))
    if nontriv:
        r.nontrivial(case)
    per = {round(0.1 * i, 9): {'pre_it': 0, 'sweeps': 0, 'post': None} for i in range(nsteps)}
    for name, t, it, res, slot in events:
        if t not in per:
            r.fail('unexpected-step-time', f'{t}')
            continue
        a = per[t]
        if name == 'pre_iteration':
            a['pre_it'] += 1
        elif name == 'post_sweep':
            a['sweeps'] += 1
        elif name == 'post_step':
            a['post'] = (it, res)
    niter_stats = {round(t, 9): v for t, v in get_sorted(stats, type='niter', sortby='time')}
    r.check(len(niter_stats) == nsteps, 'niter-records', f'{len(niter_stats)} niter records for {nsteps} steps')
    for blk in range(nblocks):
        done_iters = []
        for s in range(P):
            i = blk * P + s
            a = per[round(0.1 * i, 9)]
            if not r.check(a['post'] is not None, 'step-without-post_step', f'step {i}'):
                continue
            k, res = a['post']
            done_iters.append(k)
            r.check(k <= K, 'iter-exceeds-maxiter', f'step {i}: iter {k} > maxiter {K}')
            r.check(k == a['pre_it'], 'iter-vs-callbacks', f'step {i}: status.iter {k}, {a["pre_it"]} pre_iteration callbacks')
            r.check(res == val(i, k), 'scripted-residual-seen', f'step {i}: residual at finish {res!r}, scripted {val(i, k)!r}')
            if k < K:
                r.check(res <= 0.5, 'finished-above-tolerance', f'step {i} finished at iter {k} < maxiter {K} with residual {res!r} > 0.5; table {seqs}')
                r.check(a['sweeps'] >= 1, 'finished-without-sweep', f'step {i} finished at iter {k} with zero sweeps; table {seqs}')
            r.check(niter_stats.get(round(0.1 * i, 9)) == k, 'logged-niter', f'step {i}: logged {niter_stats.get(round(0.1 * i, 9))!r}, performed {k}')
            own = next((kk for kk in range(K + 1) if val(i, kk) <= 0.5), K)
            r.check(k >= min(own, K), 'finished-too-early', f'step {i}: finished at {k}, first below-tolerance iteration {own}')
        if case['all_to_done'] and done_iters:
            r.check(len(set(done_iters)) == 1, 'all_to_done-unequal-niter', f'block {blk}: {done_iters}')
        r.check(all(x <= y for x, y in zip(done_iters[:-1], done_iters[1:])), 'finish-order', f'block {blk}: {done_iters}')


def scripted_enum(tier):
    out = []
    Kmax = 3 if tier == 'quick' else 4
    for P in (1, 2, 3):
        for K in range(1, Kmax + 1):
            if P == 3 and K > 2 and tier == 'quick':
                continue
            seqs = list(itertools.product([0, 1], repeat=K + 1))
            for combo in itertools.product(seqs, repeat=P):
                for jac, atd in ((True, False), (False, False), (True, True)):
                    if P == 1 and (not jac or atd):
                        continue
                    out.append({'num_procs': P, 'maxiter': K, 'nblocks': 1, 'table': [list(c) for c in combo], 'jac': jac, 'all_to_done': atd})
    # two consecutive blocks of one step each: all pairs of sequences (history across blocks)
    for K in range(1, Kmax + 1):
        seqs = list(itertools.product([0, 1], repeat=K + 1))
        for combo in itertools.product(seqs, repeat=2):
            out.append({'num_procs': 1, 'maxiter': K, 'nblocks': 2, 'table': [list(c) for c in combo], 'jac': True, 'all_to_done': False})
    return out


@st.composite
def scripted_cases(draw):
    P = draw(st.integers(1, 4))
    K = draw(st.integers(1, 9))
    nblocks = draw(st.integers(1, 3))
    table = [[draw(st.sampled_from([0, 1, 0.5, 0.49, 0.51, 2.0, 1e-9])) for _ in range(K + 1)] for _ in range(P * nblocks)]
    return {'num_procs': P, 'maxiter': K, 'nblocks': nblocks, 'table': table, 'jac': draw(st.booleans()), 'all_to_done': draw(st.integers(0, 3)) == 0, 'default': 1.0}


# ----------------------------------------------------------------------------------------------- explicitly forced continuation
class ForceContinue(ConvergenceController):
    """harness controller: at the iteration budget, forces `extra[step index]` further iterations of that step, one flag per iteration
    (order 150: after the sweeper-related controllers, before CheckConvergence (200) evaluates the flags)"""

    remaining = {}

    def setup(self, controller, params, description, **kwargs):
        return {'control_order': 150, **super().setup(controller, params, description, **kwargs)}

    def check_iteration_status(self, controller, S, **kwargs):
        key = round(S.time, 9)
        if S.status.iter >= S.params.maxiter and type(self).remaining.get(key, 0) > 0:
            type(self).remaining[key] -= 1
            S.status.force_continue = True


def prop_forced(case, r):
    P, K, nblocks = case['num_procs'], case['maxiter'], case['nblocks']
    desc = R.scalar_description(lam=-1.0, dt=0.1, maxiter=K, restol=-1.0, num_nodes=2, extra_cc={ForceContinue: {}})
    counts = {}

    class Runaway(Exception):
        pass

    limit = K + max(case['extra'] + [0]) + 5

    def capture(name, step, lvl):
        if name == 'pre_iteration':
            t = round(step.levels[0].time, 9)
            counts[t] = counts.get(t, 0) + 1
            if counts[t] > limit:
                raise Runaway(f'step at t={t} started iteration {counts[t]} with budget {K}')  # count based guard: the run would never end

    F.Recorder.reset(capture=capture)
    ctrl = R.make_controller(P, desc, hooks=[F.Recorder], mssdc_jac=case['jac'], all_to_done=False)
    nsteps = P * nblocks
    # only the last step of a block is forced: its continuation cannot make a successor wait
    extra = {round(0.1 * (b * P + P - 1), 9): int(n) for b, n in enumerate(case['extra'][:nblocks])}
    ForceContinue.remaining = dict(extra)
    prob = ctrl.MS[0].levels[0].prob
    u0 = prob.dtype_u(prob.init)
    u0[:] = 1.0
    try:
        uend, stats = ctrl.run(u0=u0, t0=0.0, Tend=0.1 * nsteps - 0.03)
    except Runaway as e:
        r.fail('forced-continuation-count', f'iteration counter runs away although only {extra} continuation(s) were forced: {e}')
        return
    r.label(f'procs{P}', f'maxiter{K}', 'jacobi' if case['jac'] else 'gauss-seidel')
    if any(extra.values()) and nblocks >= 2:
        r.nontrivial(case)
    niter = {round(t, 9): v for t, v in get_sorted(stats, type='niter', sortby='time')}
    r.check(len(niter) == nsteps, 'niter-records', f'{len(niter)} niter records for {nsteps} steps')
    for i in range(nsteps):
        t = round(0.1 * i, 9)
        exp = K + extra.get(t, 0)
        got = niter.get(t)
        r.check(got == exp, 'forced-continuation-count', f'step {i}: {got} iterations with budget {K} and {extra.get(t, 0)} explicitly forced continuation(s), expected {exp} (forcing plan {extra})')
        r.check(counts.get(t, 0) == got, 'iter-vs-callbacks', f'step {i}: logged niter {got}, {counts.get(t, 0)} pre_iteration callbacks')
    r.check(all(v == 0 for v in ForceContinue.remaining.values()), 'force-flag-not-consumed', f'{ForceContinue.remaining}')


@st.composite
def forced_cases(draw):
    nb = draw(st.integers(1, 3))
    return {'num_procs': draw(st.integers(1, 3)), 'maxiter': draw(st.integers(1, 4)), 'nblocks': nb, 'jac': draw(st.booleans()), 'extra': [draw(st.integers(0, 3)) for _ in range(nb)]}



def known_match(fid, clause, case, failure):
    tag, msg = failure
    if fid == 'F3b' and tag == 'finished-without-sweep':
        return 'finished at iter 0 with 0 sweeps' in msg or 'finished at iter 0 with zero sweeps' in msg
    if fid == 'F3b' and tag == 'finished-above-tolerance':
        # zero-sweep finish judged on the predictor's stored f (inconsistent for 'zero'/'copy' guesses): same root cause
        return ' finished at iter 0 ' in msg and clause == 'real-runs'
    return False


def clauses(tier):
    return [
        Clause('real-runs', prop_real, strategy=real_cases(), examples={'quick': 500, 'thorough': 12000}),
        Clause('scripted-enum', prop_scripted, enumerate=scripted_enum, exhaustive=True),
        Clause('scripted-generated', prop_scripted, strategy=scripted_cases(), examples={'quick': 400, 'thorough': 10000}),
        Clause('forced-continuation', prop_forced, strategy=forced_cases(), examples={'quick': 300, 'thorough': 4000}),
    ]
