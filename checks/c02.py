"""C02 - one sweep equals one preconditioned Picard iteration of the sweeper's matrices.

Oracle: dense global algebra. For arbitrary (not spread) node values with consistent f, random tau:
  (I (x) Mass - dt QI(x)A_I - dt QE(x)A_E) U_new = 1(x)(Mass u0) + dt (Q-QI)(x)I F_I_old + dt (Q-QE)(x)I F_E_old
                                                   + dt QI(x)I G_I + dt QE(x)I G_E + tau
solved with numpy (kron + solve), compared with the node-by-node sweep of the real sweeper on a real Level.
Runge-Kutta sweepers: global stage system of the class's Butcher tableau. integrate() == dt*Q*F, end point as configured.
"""

import numpy as np
from hypothesis import strategies as st

from vlib.runner import Clause
from vlib import strats as S
from vlib import fixtures as F
from checks import c02_extra as X

from pySDC.core.step import Step
from pySDC.core.collocation import CollBase
from pySDC.implementations.sweeper_classes.generic_implicit import generic_implicit
from pySDC.implementations.sweeper_classes.explicit import explicit
from pySDC.implementations.sweeper_classes.imex_1st_order import imex_1st_order
from pySDC.implementations.sweeper_classes.imex_1st_order_mass import imex_1st_order_mass
from pySDC.implementations.sweeper_classes.multi_implicit import multi_implicit
from pySDC.implementations.sweeper_classes import Runge_Kutta as RKmod

PROPERTY = 'C02'
LEVEL = 'exploration'
RULE = (
    'Hypothesis draws sweeper class x preconditioner name(s) x node family/type/count x dt in 10^[-3,0.5] x dense linear operator(s) '
    '(dim 1-4, optional time-dependent forcing) x arbitrary node values (consistent f) x tau on/off x end-point mode x sweep index k. '
    'Further clauses: boris_2nd_order and RKN / Velocity_Verlet on the Penning trap (1-2 particles, random field strengths, optional time-dependent field), the four multistep classes through 1-6 controller steps, '
    'FullyImplicitDAE / SemiImplicitDAE / RungeKuttaDAE classes on the shipped DAE problems with states near the exact solution. '
    'Non-trivial = node values not all equal and M >= 2 (RK: >= 2 stages; multistep: >= 2 steps); distinct = (sweeper, names, node set, dim, tau, coll-update, k).'
)
ASSUMPTIONS = [
    'Q and QDelta are read from the sweeper object (they define the iteration) and separately cross-checked against qmat built independently',
    'tolerance 1e-10 * cond(system) * scale; fixture problems solve their node systems with numpy.linalg.solve',
]

SWEEPERS = {
    'generic_implicit': generic_implicit,
    'explicit': explicit,
    'imex_1st_order': imex_1st_order,
    'imex_1st_order_mass': imex_1st_order_mass,
    'multi_implicit': multi_implicit,
}


def _np(x):
    return np.array(x, dtype=float)


def build_level(case):
    sw = case['sweeper']
    n = case['n']
    sp = dict(case['nodes'])
    sp['do_coll_update'] = bool(case['coll_update'])
    if sw in ('generic_implicit',):
        sp['QI'] = case['QI']
        pc, pp = F.LinVec, {'A': _np(case['A']), 'g': case['g']}
    elif sw == 'explicit':
        sp['QE'] = case['QE']
        pc, pp = F.LinVec, {'A': _np(case['A']), 'g': case['g']}
    elif sw == 'imex_1st_order':
        sp['QI'], sp['QE'] = case['QI'], case['QE']
        pc, pp = F.LinVecIMEX, {'AI': _np(case['A']), 'AE': _np(case['A2']), 'gI': case['g'], 'gE': case['g2']}
    elif sw == 'imex_1st_order_mass':
        sp['QI'], sp['QE'] = case['QI'], case['QE']
        pc, pp = F.LinVecMass, {'AI': _np(case['A']), 'AE': _np(case['A2']), 'gI': case['g'], 'gE': case['g2'], 'M': _np(case['Mass'])}
    elif sw == 'multi_implicit':
        sp['Q1'], sp['Q2'] = case['QI'], case['Q2']
        pc, pp = F.LinVec2Impl, {'A1': _np(case['A']), 'A2': _np(case['A2']), 'g1': case['g'], 'g2': case['g2']}
    desc = {
        'problem_class': pc,
        'problem_params': pp,
        'sweeper_class': SWEEPERS[sw],
        'sweeper_params': sp,
        'level_params': {'dt': case['dt']},
        'step_params': {'maxiter': 1},
    }
    step = Step(desc)
    return step, step.levels[0]


def fill_level(L, case):
    P = L.prob
    M = L.sweep.coll.num_nodes
    t0 = case['t0']
    L.status.time = t0
    L.status.unlocked = True
    L.status.sweep = 1
    U = _np(case['U'])
    for m in range(M + 1):
        u = P.dtype_u(P.init)
        u[:] = U[m]
        L.u[m] = u
        tm = t0 if m == 0 else t0 + L.dt * L.sweep.coll.nodes[m - 1]
        L.f[m] = P.eval_f(u, tm)
    if case['tau'] is not None:
        T = _np(case['tau'])
        for m in range(M):
            tau = P.dtype_u(P.init)
            tau[:] = T[m]
            L.tau[m] = tau


def warm_up(L, factor):
    """perform one throw-away sweep (and end-point evaluation) on the same sweeper / level with a different step size, then restore the node
    values: a sweeper that caches dt-dependent quantities from an earlier sweep (stale state) then fails the judged sweep"""
    if not factor:
        return
    P = L.prob
    cp = lambda lst, T: [None if x is None else T(x) for x in lst]  # noqa: E731
    saved_u, saved_f, saved_tau = cp(L.u, P.dtype_u), cp(L.f, P.dtype_f), cp(L.tau, P.dtype_u)
    saved_uend = None if L.uend is None else P.dtype_u(L.uend)
    dt = L.params.dt
    L.params.dt = dt * factor
    try:
        L.sweep.update_nodes()
        L.sweep.compute_end_point()
    except Exception:  # noqa: BLE001  (singular node system, solver failure at the other step size: irrelevant for the judged sweep)
        pass
    L.params.dt = dt
    L.u[:], L.f[:], L.tau[:] = saved_u, saved_f, saved_tau
    L.uend = saved_uend
    L.status.sweep = 1
    L.status.unlocked = True


def snapshot(L):
    return {
        'u': [None if x is None else np.array(x, copy=True) for x in L.u],
        'f': [None if x is None else np.array(x, copy=True) for x in L.f],
        'tau': [None if x is None else np.array(x, copy=True) for x in L.tau],
    }


def independent_qdelta(case, name, k, explicit_kind=False):
    """zero-padded QDelta from a *fresh* qmat construction (not through the sweeper)."""
    from qmat import Q_GENERATORS
    from qmat.qdelta import QDELTA_GENERATORS

    nd = case['nodes']
    gen = Q_GENERATORS['Collocation'](nNodes=nd['num_nodes'], nodeType=nd['node_type'], quadType=nd['quad_type'], tLeft=0, tRight=1)
    g = QDELTA_GENERATORS[name](qGen=gen, tLeft=0)
    M = nd['num_nodes']
    QD = np.zeros((M + 1, M + 1))
    if explicit_kind:
        QD[1:, 1:], QD[1:, 0] = g.genCoeffs(k=k, dTau=True)
    else:
        QD[1:, 1:] = g.genCoeffs(k=k)
    return QD, g.isKDependent()


def closed_form_qdelta(name, coll):
    """closed forms for the most used names (None if not covered)"""
    M = coll.num_nodes
    nodes = np.asarray(coll.nodes, dtype=float)
    d = np.diff(np.concatenate([[coll.tleft], nodes]))
    QD = np.zeros((M + 1, M + 1))
    if name == 'IE':
        for m in range(1, M + 1):
            QD[m, 1 : m + 1] = d[:m]
    elif name == 'EE':
        for m in range(1, M + 1):
            QD[m, 0:m] = d[:m]
    elif name == 'PIC':
        pass
    elif name == 'IEpar':
        QD[1:, 1:] = np.diag(nodes - coll.tleft)
    elif name == 'MIN-SR-NS':
        QD[1:, 1:] = np.diag(nodes - coll.tleft) / M
    elif name == 'LU':
        import scipy.linalg

        QT = coll.Qmat[1:, 1:].T.copy()
        _, _, U = scipy.linalg.lu(QT, overwrite_a=True, check_finite=False)
        # pivoting-free LU is what the literature (and qmat) use; only compare when no pivoting happened
        return None
    else:
        return None
    return QD


def mats(L):
    c = L.sweep.coll
    return np.asarray(c.Qmat, float), np.asarray(c.weights, float), np.asarray(c.nodes, float)


# ------------------------------------------------------------------------------------------------
def prop_sdc(case, r):
    sw = case['sweeper']
    n = case['n']
    r.label(sw, case['nodes']['quad_type'], 'tau' if case['tau'] is not None else 'no-tau', 'coll-update' if case['coll_update'] else 'last-node')
    try:
        step, L = build_level(case)
    except (AssertionError, NotImplementedError) as e:
        # names the sweeper rejects with its own assertion (not triangular) / qmat cannot build: rejected cleanly
        r.label('rejected-cleanly')
        r.discard(f'preconditioner rejected at construction: {type(e).__name__}')
        return
    sweep = L.sweep
    M = sweep.coll.num_nodes
    dt = L.dt
    Q, w, nodes = mats(L)
    k = case['k']

    # ---- preconditioner matrices: structure, independent construction, k-refresh
    names = []
    if sw in ('generic_implicit', 'imex_1st_order', 'imex_1st_order_mass'):
        names.append(('QI', case['QI'], False))
    if sw in ('explicit', 'imex_1st_order', 'imex_1st_order_mass'):
        names.append(('QE', case['QE'], True))
    if sw == 'multi_implicit':
        names += [('Q1', case['QI'], False), ('Q2', case['Q2'], False)]
    before = {a: np.array(getattr(sweep, a), copy=True) for a, _, _ in names}
    sweep.updateVariableCoeffs(k)
    kdep_any = False
    for attr, name, expl in names:
        QD = np.asarray(getattr(sweep, attr), float)
        if not np.isfinite(QD).all():
            r.fail('nonfinite-QD', f'{attr}={name} on {case["nodes"]} has non-finite entries and was accepted')
            return
        r.check(QD.shape == (M + 1, M + 1), 'QD-shape', f'{QD.shape}')
        r.check(not np.triu(QD, 0 if expl else 1).any(), 'QD-triangular', f'{attr}={name}')
        if not expl:
            r.check(not QD[:, 0].any() and not QD[0, :].any(), 'QD-padding', f'{attr}={name}')
        if sw == 'multi_implicit':
            kq = None  # multi_implicit keeps Q1/Q2 fixed (no genQI attribute refresh)
            ind, kdep = independent_qdelta(case, name, None, expl)
            r.close(np.abs(QD - ind).max(), 1e-13 * max(1.0, np.abs(ind).max()), 'QD-independent', f'{attr}={name}')
            continue
        ind_k, kdep = independent_qdelta(case, name, k if True else None, expl)
        kdep_any = kdep_any or kdep
        if kdep:
            r.label('k-dependent')
            r.close(np.abs(QD - ind_k).max(), 1e-13 * max(1.0, np.abs(ind_k).max()), 'QD-refresh-k', f'{attr}={name} k={k}')
        else:
            r.check(np.array_equal(QD, before[attr]), 'QD-k-independent-noop', f'{attr}={name} changed by updateVariableCoeffs({k})')
            r.close(np.abs(QD - ind_k).max(), 1e-13 * max(1.0, np.abs(ind_k).max()), 'QD-independent', f'{attr}={name}')
        cf = closed_form_qdelta(name, sweep.coll)
        if cf is not None:
            if not expl:  # implicit use drops the dTau column
                cf = cf.copy()
                cf[:, 0] = 0.0
            r.close(np.abs(QD - cf).max(), 1e-13, 'QD-closed-form', f'{attr}={name}')

    fill_level(L, case)
    P = L.prob
    P.calls.clear()
    before_lvl = snapshot(L)
    U_old = np.array([np.asarray(x) for x in L.u[1:]])
    u0 = np.asarray(L.u[0]).copy()
    if len({tuple(np.round(x, 12)) for x in _np(case['U'])}) > 1 and M >= 2:
        r.nontrivial([sw, case.get('QI'), case.get('QE'), case.get('Q2'), case['nodes'], n, case['tau'] is not None, case['coll_update'], k if kdep_any else 0])
    tm = case['t0'] + dt * nodes
    tau = np.zeros((M, n)) if case['tau'] is None else _np(case['tau'])
    I = np.eye(n)

    # ---- integrate() == dt * Q * F(U)
    integ = sweep.integrate()
    if sw in ('generic_implicit', 'explicit'):
        Fold = np.array([np.asarray(x) for x in L.f[1:]])
        Ffull = Fold
    elif sw in ('imex_1st_order', 'imex_1st_order_mass'):
        FI = np.array([np.asarray(x.impl) for x in L.f[1:]])
        FE = np.array([np.asarray(x.expl) for x in L.f[1:]])
        Ffull = FI + FE
    else:
        F1 = np.array([np.asarray(x.comp1) for x in L.f[1:]])
        F2 = np.array([np.asarray(x.comp2) for x in L.f[1:]])
        Ffull = F1 + F2
    exp_int = dt * Q[1:, 1:] @ Ffull
    scale_f = max(1.0, np.abs(Ffull).max()) * dt
    r.check(len(integ) == M, 'integrate-len', f'{len(integ)}')
    r.close(np.abs(np.array([np.asarray(x) for x in integ]) - exp_int).max(), 1e-12 * scale_f * max(1.0, np.abs(Q).max()) * M, 'integrate')
    r.check(all(type(x) is P.dtype_u for x in integ), 'integrate-type', 'integrate must return dtype_u')

    # ---- one sweep
    warm_up(L, case.get('warm'))
    if case.get('warm'):
        P.calls.clear()  # the call log judges the times of the sweep below only
    try:
        sweep.update_nodes()
    except np.linalg.LinAlgError:
        # the fixture's node solve (numpy) hit an exactly singular I - dt*QD_mm*A (e.g. A = 2, dt*QD_mm = 1/2): same class as the
        # ill-conditioned systems discarded below; the statement is about the iteration, not about solvability of a singular node system
        r.discard('node system exactly singular')
        return
    U_new = np.array([np.asarray(x) for x in L.u[1:]])
    if sw in ('generic_implicit', 'explicit'):
        QD = np.asarray(sweep.QI if sw == 'generic_implicit' else sweep.QE, float)[1:, 1:]
        A = P.Amat
        G = np.array([P.forcing(t) for t in tm])
        lhs = np.eye(M * n) - dt * np.kron(QD, A)
        rhs = np.kron(np.ones(M), u0) + (dt * (Q[1:, 1:] - QD) @ Fold).ravel() + (dt * QD @ G).ravel() + tau.ravel()
    elif sw in ('imex_1st_order', 'imex_1st_order_mass'):
        QI = np.asarray(sweep.QI, float)[1:, 1:]
        QE = np.asarray(sweep.QE, float)[1:, 1:]
        GI = np.array([P.fI(t) for t in tm])
        GE = np.array([P.fE(t) for t in tm])
        Mass = P.Mm if sw == 'imex_1st_order_mass' else I
        lhs = np.kron(np.eye(M), Mass) - dt * np.kron(QI, P.AIm) - dt * np.kron(QE, P.AEm)
        rhs = (
            np.kron(np.ones(M), Mass @ u0)
            + (dt * (Q[1:, 1:] - QI) @ FI).ravel()
            + (dt * (Q[1:, 1:] - QE) @ FE).ravel()
            + (dt * QI @ GI).ravel()
            + (dt * QE @ GE).ravel()
            + tau.ravel()
        )
    else:  # multi_implicit: two successive solves per node (node-by-node reference, dense algebra)
        Q1 = np.asarray(sweep.Q1, float)[1:, 1:]
        Q2 = np.asarray(sweep.Q2, float)[1:, 1:]
        Unew_ref = np.zeros((M, n))
        F1n = np.zeros((M, n))
        F2n = np.zeros((M, n))
        worst_cond = 1.0
        for m in range(M):
            rhs1 = u0 + tau[m] + dt * (Q[1 + m, 1:] @ Ffull) - dt * (Q1[m] @ F1) + dt * (Q1[m, :m] @ F1n[:m])
            a1 = dt * Q1[m, m]
            K1 = I - a1 * P.A1m
            v = np.linalg.solve(K1, rhs1 + a1 * P.f1(tm[m]))
            rhs2 = v - dt * (Q2[m] @ F2) + dt * (Q2[m, :m] @ F2n[:m])
            a2 = dt * Q2[m, m]
            K2 = I - a2 * P.A2m
            Unew_ref[m] = np.linalg.solve(K2, rhs2 + a2 * P.f2(tm[m]))
            F1n[m] = P.A1m @ Unew_ref[m] + P.f1(tm[m])
            F2n[m] = P.A2m @ Unew_ref[m] + P.f2(tm[m])
            worst_cond = max(worst_cond, np.linalg.cond(K1), np.linalg.cond(K2))
        lhs = None
    if lhs is not None:
        cond = np.linalg.cond(lhs)
        if not np.isfinite(cond) or cond > 1e8:
            r.discard('node system ill-conditioned (cond > 1e8)')
            return
        Unew_ref = np.linalg.solve(lhs, rhs).reshape(M, n)
    else:
        cond = worst_cond ** min(M, 3)
        if cond > 1e8:
            r.discard('node system ill-conditioned (cond > 1e8)')
            return
    scale = max(1.0, np.abs(Unew_ref).max(), np.abs(U_old).max(), np.abs(u0).max(), np.abs(tau).max())
    r.close(np.abs(U_new - Unew_ref).max(), 1e-10 * cond * scale, 'sweep-nodes', lambda: f'{sw} {case.get("QI")}/{case.get("QE")}/{case.get("Q2")} {case["nodes"]} dt={dt}')

    # f refreshed consistently at the right times, u[0]/f[0]/tau untouched, flags
    for m in range(1, M + 1):
        fexp = P.eval_f(L.u[m], tm[m - 1])
        r.close(np.abs(np.asarray(L.f[m]) - np.asarray(fexp)).max(), 1e-12 * max(1.0, np.abs(np.asarray(fexp)).max()), 'f-consistent', f'node {m}')
    r.check(np.array_equal(np.asarray(L.u[0]), before_lvl['u'][0]), 'u0-modified', 'sweep changed u[0]')
    r.check(np.array_equal(np.asarray(L.f[0]), before_lvl['f'][0]), 'f0-modified', 'sweep changed f[0]')
    for m in range(M):
        if before_lvl['tau'][m] is not None:
            r.check(np.array_equal(np.asarray(L.tau[m]), before_lvl['tau'][m]), 'tau-modified', f'tau[{m}] changed')
    r.check(L.status.updated is True, 'updated-flag', '')
    # solver/evaluation times: every call at a node time of this step
    allowed = [case['t0']] + list(tm)
    for kind, t, fac in P.calls:
        if not any(abs(t - a) <= 1e-13 * max(1.0, abs(a)) for a in allowed):
            r.fail('call-time', f'{kind} called at t={t}, node times {allowed}')
            break

    # ---- end point
    if sw == 'imex_1st_order_mass' and (case['coll_update'] or not sweep.coll.right_is_node):
        try:
            sweep.compute_end_point()
            r.fail('mass-endpoint', 'mass sweeper computed a collocation update it documents as unsupported')
        except NotImplementedError:
            r.label('mass-endpoint-rejected')
        return
    sweep.compute_end_point()
    Fn = np.array([np.asarray(P.eval_f(L.u[m], tm[m - 1])) for m in range(1, M + 1)])
    if Fn.ndim == 3:
        Fn = Fn.sum(axis=1)
    if sweep.coll.right_is_node and not case['coll_update']:
        r.check(np.array_equal(np.asarray(L.uend), np.asarray(L.u[-1])), 'endpoint-last-node', 'uend != u[M]')
        r.label('end=last-node')
    else:
        exp_end = u0 + dt * (w @ Fn) + (tau[-1] if case['tau'] is not None else 0.0)
        r.close(np.abs(np.asarray(L.uend) - exp_end).max(), 1e-12 * max(1.0, np.abs(exp_end).max(), dt * np.abs(Fn).max() * np.abs(w).sum()), 'endpoint-quadrature')
        r.label('end=quadrature')
    r.check(L.uend is not L.u[-1] and not np.shares_memory(np.asarray(L.uend), np.asarray(L.u[-1])), 'endpoint-alias', 'uend shares memory with u[M]')
    r.check(type(L.uend) is P.dtype_u, 'endpoint-type', f'{type(L.uend)}')


@st.composite
def sdc_cases(draw, max_nodes=5):
    sw = draw(st.sampled_from(list(SWEEPERS)))
    nodes = draw(S.node_sets(max_nodes=max_nodes, need_right=(sw == 'imex_1st_order_mass')))
    M = nodes['num_nodes']
    n = draw(st.integers(1, 4))
    case = {'sweeper': sw, 'nodes': nodes, 'n': n}
    case['QI'] = draw(st.sampled_from(S.QI_NAMES))
    case['QE'] = draw(st.sampled_from(S.QE_NAMES))
    case['Q2'] = draw(st.sampled_from(S.QI_NAMES))
    case['dt'] = draw(S.log_uniform(-3, 0.5))
    case['t0'] = draw(S.small_float(-2, 5))
    kind = draw(st.sampled_from(['stable', 'rot', 'any']))
    case['A'] = S.shape_matrix(draw(S.mat(n)), kind)
    case['A2'] = S.shape_matrix(draw(S.mat(n)), draw(st.sampled_from(['rot', 'any', 'stable'])))
    case['g'] = draw(S.forcing(n))
    case['g2'] = draw(S.forcing(n))
    Bm = np.array(draw(S.mat(n)))
    case['Mass'] = (np.eye(n) + 0.2 * (Bm @ Bm.T) / n).tolist()
    spread = draw(st.integers(0, 9)) == 0
    if spread:
        u = draw(S.vec(n))
        case['U'] = [u for _ in range(M + 1)]
    else:
        case['U'] = draw(S.mat(M + 1, n))
    case['tau'] = draw(S.mat(M, n)) if draw(st.booleans()) else None
    case['coll_update'] = draw(st.booleans())
    case['k'] = draw(st.integers(1, 6))
    case['warm'] = draw(st.sampled_from([None, None, 0.5, 3.0]))  # throw-away sweep with another step size first (stale-state probe)
    return case


# ------------------------------------------------------------------------------------------------ Runge-Kutta
def rk_classes():
    out = {}
    for name in dir(RKmod):
        obj = getattr(RKmod, name)
        if isinstance(obj, type) and issubclass(obj, RKmod.RungeKutta) and obj not in (RKmod.RungeKutta, RKmod.RungeKuttaIMEX):
            if obj.matrix is not None:
                out[name] = obj
    return out


RK = rk_classes()


def prop_rk(case, r):
    cls = RK[case['cls']]
    imex = issubclass(cls, RKmod.RungeKuttaIMEX)
    n = case['n']
    r.label(case['cls'], 'imex' if imex else 'plain', 'embedded' if cls.is_embedded() else 'single')
    if imex:
        pc, pp = F.LinVecIMEX, {'AI': _np(case['A']), 'AE': _np(case['A2']), 'gI': case['g'], 'gE': case['g2']}
    else:
        pc, pp = F.LinVec, {'A': _np(case['A']), 'g': case['g']}
    desc = {'problem_class': pc, 'problem_params': pp, 'sweeper_class': cls, 'sweeper_params': {}, 'level_params': {'dt': case['dt']}, 'step_params': {'maxiter': 1}}
    step = Step(desc)
    L = step.levels[0]
    P = L.prob
    sweep = L.sweep
    dt, t0 = L.dt, case['t0']
    Arki = np.asarray(cls.matrix, float)
    s = Arki.shape[0]
    c = np.asarray(cls.nodes, float)
    W = np.asarray(cls.weights, float)
    r.check(not np.triu(Arki, 1).any(), 'rk-lower-triangular', case['cls'])
    if s >= 2:
        r.nontrivial([case['cls'], n, case['g'] is not None])
    L.status.time = t0
    u0 = P.dtype_u(P.init)
    u0[:] = _np(case['u0'])
    L.u[0] = P.dtype_u(u0)
    L.f[0] = P.eval_f(L.u[0], t0)
    sweep.predict()
    L.status.sweep = 1
    u0c = np.asarray(u0).copy()
    f0c = np.array(L.f[0], copy=True)
    P.calls.clear()
    try:
        sweep.update_nodes()
    except np.linalg.LinAlgError:
        r.discard('node system exactly singular')
        return
    tm = t0 + dt * c
    I = np.eye(n)
    if imex:
        Arke = np.asarray(cls.matrix_explicit, float)
        We = np.asarray(cls.weights_explicit if cls.weights_explicit is not None else cls.weights, float)
        GI = np.array([P.fI(t) for t in tm])
        GE = np.array([P.fE(t) for t in tm])
        lhs = np.eye(s * n) - dt * np.kron(Arki, P.AIm) - dt * np.kron(Arke, P.AEm)
        rhs = np.kron(np.ones(s), u0c) + (dt * Arki @ GI).ravel() + (dt * Arke @ GE).ravel()
    else:
        G = np.array([P.forcing(t) for t in tm])
        lhs = np.eye(s * n) - dt * np.kron(Arki, P.Amat)
        rhs = np.kron(np.ones(s), u0c) + (dt * Arki @ G).ravel()
    cond = np.linalg.cond(lhs)
    if cond > 1e8:
        r.discard('stage system ill-conditioned')
        return
    Uref = np.linalg.solve(lhs, rhs).reshape(s, n)
    Unew = np.array([np.asarray(x) for x in L.u[1:]])
    scale = max(1.0, np.abs(Uref).max())
    r.close(np.abs(Unew - Uref).max(), 1e-10 * cond * scale, 'rk-stages', case['cls'])
    r.check(np.array_equal(np.asarray(L.u[0]), u0c), 'u0-modified', 'RK sweep changed u[0]')
    r.check(np.array_equal(np.asarray(L.f[0]), f0c), 'f0-modified', 'RK sweep changed f[0]')
    allowed = [t0] + list(tm)
    for kind, t, fac in P.calls:
        if not any(abs(t - a) <= 1e-13 * max(1.0, abs(a)) for a in allowed):
            r.fail('call-time', f'{kind} at t={t}; stage times {allowed}')
            break
    sweep.compute_end_point()
    if imex:
        FIr = Uref @ P.AIm.T + GI
        FEr = Uref @ P.AEm.T + GE
        w1 = W[0] if W.ndim == 2 else W
        w1e = We[0] if We.ndim == 2 else We
        end = u0c + dt * (w1 @ FIr + w1e @ FEr)
        if W.ndim == 2:
            sec = u0c + dt * (W[1] @ FIr + We[1] @ FEr)
    else:
        Fr = Uref @ P.Amat.T + G
        w1 = W[0] if W.ndim == 2 else W
        end = u0c + dt * (w1 @ Fr)
        if W.ndim == 2:
            sec = u0c + dt * (W[1] @ Fr)
    fs = max(1.0, np.abs(end).max(), dt * np.abs(Uref).max() * np.abs(w1).sum() * max(1.0, np.abs(case['A']).max()))
    r.close(np.abs(np.asarray(L.uend) - end).max(), 1e-10 * cond * fs, 'rk-endpoint', case['cls'])
    if W.ndim == 2:
        r.close(np.abs(np.asarray(sweep.u_secondary) - sec).max(), 1e-10 * cond * fs, 'rk-secondary', case['cls'])
    r.check(np.array_equal(np.asarray(L.u[0]), u0c), 'u0-modified', 'end point computation changed u[0]')


@st.composite
def rk_cases(draw):
    name = draw(st.sampled_from(sorted(RK)))
    n = draw(st.integers(1, 3))
    return {
        'cls': name,
        'n': n,
        'dt': draw(S.log_uniform(-3, 0)),
        't0': draw(S.small_float(-2, 5)),
        'A': S.shape_matrix(draw(S.mat(n)), draw(st.sampled_from(['stable', 'rot', 'any']))),
        'A2': S.shape_matrix(draw(S.mat(n)), draw(st.sampled_from(['rot', 'any']))),
        'g': draw(S.forcing(n)),
        'g2': draw(S.forcing(n)),
        'u0': draw(S.vec(n)),
    }


# ------------------------------------------------------------------------------------------------ Verlet (second order)
def prop_verlet(case, r):
    from pySDC.implementations.sweeper_classes.verlet import verlet

    n = case['n']
    sp = dict(case['nodes'])
    sp['do_coll_update'] = bool(case['coll_update'])
    sp['QI'], sp['QE'] = case['QI'], case['QE']
    desc = {'problem_class': F.LinSecondOrder, 'problem_params': {'K': _np(case['K']), 'g': case['g']}, 'sweeper_class': verlet, 'sweeper_params': sp, 'level_params': {'dt': case['dt']}, 'step_params': {'maxiter': 1}}
    try:
        step = Step(desc)
    except (AssertionError, NotImplementedError) as e:
        r.discard(f'preconditioner rejected at construction: {type(e).__name__}')
        return
    L = step.levels[0]
    P, sweep = L.prob, L.sweep
    coll = sweep.coll
    M, dt, t0 = coll.num_nodes, L.dt, case['t0']
    r.label('verlet', case['nodes']['quad_type'], 'tau' if case['tau'] is not None else 'no-tau', 'coll-update' if case['coll_update'] else 'last-node')
    Q = np.asarray(coll.Qmat, float)
    w = np.asarray(coll.weights, float)
    nodes = np.asarray(coll.nodes, float)
    QI = np.zeros((M + 1, M + 1))
    QE = np.zeros((M + 1, M + 1))
    QI[1:, 1:] = independent_qdelta(case, case['QI'], None)[0][1:, 1:]
    QEf, _ = independent_qdelta(case, case['QE'], None, True)
    QE[:] = QEf
    if not (np.isfinite(QI).all() and np.isfinite(QE).all()):
        r.discard('non-finite preconditioner')
        return
    # matrices of the statement: QT = (QI+QE)/2, Qx = QE QT + QE o QE / 2
    QT = 0.5 * (QI + QE)
    Qx = QE @ QT + 0.5 * QE * QE
    r.close(np.abs(np.asarray(sweep.QT) - QT).max(), 1e-13, 'verlet-QT')
    r.close(np.abs(np.asarray(sweep.Qx) - Qx).max(), 1e-13, 'verlet-Qx')
    if coll.node_type == 'LEGENDRE' and coll.quad_type == 'LOBATTO':
        QQ = None  # symplectic variant documented for Gauss-Lobatto nodes: taken from the sweeper
        QQ = np.asarray(sweep.QQ, float)
    else:
        QQ = Q @ Q
        r.close(np.abs(np.asarray(sweep.QQ) - QQ).max(), 1e-13, 'verlet-QQ')
    L.status.time = t0
    L.status.unlocked = True
    L.status.sweep = 1
    X = _np(case['X'])
    V = _np(case['V'])
    tm = t0 + dt * nodes
    for m in range(M + 1):
        u = P.dtype_u(P.init)
        u.pos[:] = X[m]
        u.vel[:] = V[m]
        L.u[m] = u
        L.f[m] = P.eval_f(u, t0 if m == 0 else tm[m - 1])
    tau = None
    if case['tau'] is not None:
        tau = _np(case['tau'])
        for m in range(M):
            tt = P.dtype_u(P.init, val=0.0)
            tt.pos[:] = tau[m, 0]
            tt.vel[:] = tau[m, 1]
            L.tau[m] = tt
    if len({tuple(x) for x in np.round(X, 12)}) > 1 and M >= 2:
        r.nontrivial(['verlet', case['QI'], case['QE'], case['nodes'], n, case['tau'] is not None, case['coll_update']])
    Fold = np.array([np.asarray(L.f[m]) for m in range(M + 1)])
    x0, v0 = X[0].copy(), V[0].copy()
    K = P.Km
    # integrate(): pos = dt^2 QQ F + dt Q 1 v0, vel = dt Q F
    integ = sweep.integrate()
    ip = np.array([np.asarray(p.pos) for p in integ])
    iv = np.array([np.asarray(p.vel) for p in integ])
    ep = dt * dt * (QQ[1:, 1:] @ Fold[1:]) + dt * Q[1:, 1:].sum(axis=1)[:, None] * v0[None, :]
    evl = dt * (Q[1:, 1:] @ Fold[1:])
    sc = max(1.0, np.abs(Fold).max(), np.abs(v0).max())
    r.close(np.abs(ip - ep).max(), 1e-12 * sc * M, 'verlet-integrate-pos')
    r.close(np.abs(iv - evl).max(), 1e-12 * sc * M, 'verlet-integrate-vel')
    warm_up(L, case.get('warm'))
    try:
        sweep.update_nodes()
    except np.linalg.LinAlgError:
        r.discard('node system exactly singular')
        return
    # reference: node by node, dense algebra
    Xn = np.zeros((M, n))
    Vn = np.zeros((M, n))
    Fn = np.zeros((M, n))
    for m in range(M):
        kp = ep[m] - dt * dt * (Qx[m + 1, 1:] @ Fold[1:]) + x0 + (tau[m, 0] if tau is not None else 0.0)
        kv = evl[m] - dt * (QT[m + 1, 1:] @ Fold[1:]) + v0 + (tau[m, 1] if tau is not None else 0.0)
        Xn[m] = kp + dt * dt * (Qx[m + 1, 1 : m + 1] @ Fn[:m])
        Fn[m] = -K @ Xn[m] + P.forcing(tm[m])
        Vn[m] = kv + dt * (QT[m + 1, 1 : m + 1] @ Fn[:m]) + dt * QT[m + 1, m + 1] * Fn[m]
    gotX = np.array([np.asarray(L.u[m].pos) for m in range(1, M + 1)])
    gotV = np.array([np.asarray(L.u[m].vel) for m in range(1, M + 1)])
    gotF = np.array([np.asarray(L.f[m]) for m in range(1, M + 1)])
    sc2 = max(1.0, np.abs(Xn).max(), np.abs(Vn).max(), np.abs(Fn).max())
    r.close(np.abs(gotX - Xn).max(), 1e-11 * sc2 * M, 'verlet-sweep-pos', lambda: f'{case["QI"]}/{case["QE"]} {case["nodes"]} dt={dt}')
    r.close(np.abs(gotV - Vn).max(), 1e-11 * sc2 * M, 'verlet-sweep-vel', lambda: f'{case["QI"]}/{case["QE"]} {case["nodes"]} dt={dt}')
    r.close(np.abs(gotF - Fn).max(), 1e-11 * sc2 * M * max(1.0, np.abs(K).max()), 'verlet-f-consistent')
    r.check(np.array_equal(np.asarray(L.u[0].pos), x0) and np.array_equal(np.asarray(L.u[0].vel), v0), 'u0-modified', 'verlet sweep changed u[0]')
    sweep.compute_end_point()
    if coll.right_is_node and not case['coll_update']:
        r.check(np.array_equal(np.asarray(L.uend.pos), gotX[-1]) and np.array_equal(np.asarray(L.uend.vel), gotV[-1]), 'endpoint-last-node', '')
    else:
        qQ = w @ Q[1:, 1:]
        xe = x0 + dt * dt * (qQ @ gotF) + dt * w.sum() * v0 + (tau[-1, 0] if tau is not None else 0.0)
        ve = v0 + dt * (w @ gotF) + (tau[-1, 1] if tau is not None else 0.0)
        r.close(np.abs(np.asarray(L.uend.pos) - xe).max(), 1e-11 * sc2 * M, 'verlet-endpoint-pos', lambda: f'{case["nodes"]} coll_update={case["coll_update"]}')
        r.close(np.abs(np.asarray(L.uend.vel) - ve).max(), 1e-11 * sc2 * M, 'verlet-endpoint-vel')
    r.check(L.uend is not L.u[-1] and not np.shares_memory(np.asarray(L.uend.pos), np.asarray(L.u[-1].pos)), 'endpoint-alias', '')


@st.composite
def verlet_cases(draw, max_nodes=5):
    nodes = draw(S.node_sets(max_nodes=max_nodes))
    M = nodes['num_nodes']
    n = draw(st.integers(1, 3))
    B = np.array(draw(S.mat(n)))
    case = {
        'nodes': nodes, 'n': n, 'K': ((B @ B.T) / n + 0.2 * np.eye(n)).tolist(), 'g': draw(S.forcing(n)), 'dt': draw(S.log_uniform(-2, 0.3)), 't0': draw(S.small_float(-2, 5)),
        'QI': draw(st.sampled_from(['IE', 'LU', 'MIN-SR-S', 'TRAP', 'PIC'])), 'QE': draw(st.sampled_from(['EE', 'PIC'])), 'X': draw(S.mat(M + 1, n)), 'V': draw(S.mat(M + 1, n)),
        'tau': [[draw(S.small_float()), draw(S.small_float())] for _ in range(M)] if draw(st.booleans()) else None, 'coll_update': draw(st.booleans()),
    }  # fmt: skip
    case['warm'] = draw(st.sampled_from([None, None, 0.5, 3.0]))
    return case


def known_match(fid, clause, case, failure):
    tag, msg = failure
    if fid == 'F10' and tag == 'nonfinite-QD':
        names = [case.get('QI')] + ([case.get('Q2')] if case.get('sweeper') == 'multi_implicit' else [])
        return 'LDU' in names and case['nodes']['quad_type'] in ('LOBATTO', 'RADAU-LEFT')
    return False


def clauses(tier):
    mx = 5 if tier == 'quick' else 7
    return [
        Clause('sdc-sweep', prop_sdc, strategy=sdc_cases(max_nodes=mx), examples={'quick': 2400, 'thorough': 60000}),
        Clause('rk-stages', prop_rk, strategy=rk_cases(), examples={'quick': 800, 'thorough': 15000}),
        Clause('verlet', prop_verlet, strategy=verlet_cases(mx), examples={'quick': 600, 'thorough': 12000}),
        Clause('boris', X.prop_boris, strategy=X.boris_cases(mx), examples={'quick': 400, 'thorough': 8000}),
        Clause('rkn', X.prop_rkn, strategy=X.rkn_cases(), examples={'quick': 300, 'thorough': 6000}),
        Clause('multistep', X.prop_multistep, strategy=X.multistep_cases(), examples={'quick': 400, 'thorough': 8000}),
        Clause('dae', X.prop_dae, strategy=X.dae_cases(), examples={'quick': 300, 'thorough': 5000}),
    ]
