#!/venv/bin/python
"""Confirm a seeded change and run the registered check against it (all in a scratch copy under /dev/shm).
usage: tools/seedcheck.py <PROP> <outdir> <n> [check ids...]
 1. demo on pristine copy must exit 0; 2. patch applies; 3. demo on patched copy must exit != 0;
 4. ./check <id> quick with VERIF_REPO_ROOT=patched copy -> DETECTED (exit 1) / MISSED (0)."""
import os, shutil, subprocess, sys, tempfile, json
prop, outdir, n = sys.argv[1], sys.argv[2], sys.argv[3]
checks = sys.argv[4:] or [prop]
patch = os.path.join(outdir, f'patch_{n}.diff'); demo = os.path.join(outdir, f'demo_{n}.py')
scratch = tempfile.mkdtemp(prefix='pysdc-seed-', dir='/dev/shm')
res = {}
try:
    # pristine = committed HEAD of /repo plus working tree (fix commits included)
    shutil.copytree('/repo/pySDC', os.path.join(scratch, 'pySDC'), ignore=shutil.ignore_patterns('__pycache__', 'playgrounds', 'data'))
    env = dict(os.environ, PYTHONPATH=scratch, PYTHONDONTWRITEBYTECODE='1')
    p = subprocess.run(['/venv/bin/python', demo], cwd=scratch, env=env, capture_output=True, text=True, timeout=1800)
    res['demo_pristine'] = p.returncode
    a = subprocess.run(['patch', '-p1', '-s', '-d', scratch, '-i', os.path.abspath(patch)], capture_output=True, text=True)
    res['patch_applies'] = a.returncode == 0
    if a.returncode != 0:
        print(a.stdout, a.stderr)
    p = subprocess.run(['/venv/bin/python', demo], cwd=scratch, env=env, capture_output=True, text=True, timeout=1800)
    res['demo_patched'] = p.returncode
    res['demo_tail'] = (p.stdout + p.stderr)[-300:]
    for cid in checks:
        env2 = dict(os.environ, VERIF_REPO_ROOT=scratch, VERIF_OUT=os.path.join(scratch, 'out'), VERIF_SHRINK_S='10')
        c = subprocess.run(['./check', cid, os.environ.get('SEED_TIER', 'quick')], cwd='/verif', env=env2, capture_output=True, text=True)
        lines = [l for l in c.stdout.splitlines() if 'tag=' in l][:3]
        res[f'check_{cid}'] = {'exit': c.returncode, 'verdict': 'DETECTED' if c.returncode == 1 else ('HARNESS' if c.returncode == 2 else 'MISSED'), 'first': lines}
finally:
    shutil.rmtree(scratch, ignore_errors=True)
print(json.dumps(res, indent=1))
