"""C17 - spectral helper matrices agree with exact polynomial / Fourier calculus.

Oracles: numpy.polynomial.chebyshev (chebval, chebder, chebint), scipy.special Gegenbauer/Chebyshev-U evaluation and
closed-form Fourier formulas. Test functions are sampled on the *reference* Chebyshev points (the physical grid is checked
separately against the affine map), so large-offset intervals do not lose digits in the oracle.
"""

import numpy as np
import scipy.special as scs
from numpy.polynomial import chebyshev as C
from hypothesis import strategies as st

from vlib.runner import Clause
from vlib import strats as S

from pySDC.helpers.spectral_helper import ChebychevHelper, UltrasphericalHelper, FFTHelper, SpectralHelper

PROPERTY = 'C17'
LEVEL = 'exploration'
RULE = (
    'Hypothesis draws N in 1..64 (odd and even), derivative order 1..3, interval (reference or arbitrary x0<x1 incl. large offsets) and a random coefficient vector '
    '(real for Chebyshev/ultraspherical, complex full-band for Fourier); nd clause: 2-3 axes of mixed bases with small N. '
    'Non-trivial = N >= 3 and a non-reference interval or derivative order >= 2 or dimension >= 2; distinct = (base, N, p, interval).'
)
ASSUMPTIONS = [
    'tolerances: C*eps*N^(2p) for differentiation, C*eps*N (times cond of the conversion) otherwise',
    'Chebyshev-T integration matrix, Neumann and integral rows are asserted on the reference interval only (documented as such)',
]
EPS = np.finfo(float).eps


def dense(M):
    return np.asarray(M.todense()) if hasattr(M, 'todense') else np.asarray(M)


def ref_points(N):
    return np.cos(np.pi / N * (np.arange(N) + 0.5))


def interval(case):
    return (case['x0'], case['x1'])


# ----------------------------------------------------------------------------------------------- Chebyshev / ultraspherical
def prop_cheb(case, r):
    N, p = case['N'], case['p']
    x0, x1 = interval(case)
    a, b = (x1 - x0) / 2, (x1 + x0) / 2
    c = np.array(case['coeffs'][:N] + [0.0] * max(0, N - len(case['coeffs'])))[:N]
    reference = (x0, x1) == (-1.0, 1.0)
    r.label('reference' if reference else 'interval', f'p{p}', 'odd' if N % 2 else 'even')
    if N >= 3 and (not reference or p >= 2):
        r.nontrivial(['cheb', N, p, x0, x1])
    H = ChebychevHelper(N, x0=x0, x1=x1)
    U = UltrasphericalHelper(N, x0=x0, x1=x1)
    xi = ref_points(N)
    cs = max(1.0, np.abs(c).max())
    # grid: affine image of the reference points
    x = np.asarray(H.get_1dgrid())
    r.close(np.abs(x - (a * xi + b)).max(), 8 * EPS * max(abs(x0), abs(x1), 1.0), 'cheb-grid', f'{case["N"]} [{x0},{x1}]')
    # transforms
    u = C.chebval(xi, c)
    uhat = np.asarray(H.transform(u.copy()))
    r.close(np.abs(uhat - c).max(), 200 * EPS * N * cs, 'cheb-transform', f'N={N}')
    back = np.asarray(H.itransform(uhat.copy()))
    r.close(np.abs(back - u).max(), 200 * EPS * N * cs * max(1.0, np.abs(u).max()), 'cheb-roundtrip', f'N={N}')
    # differentiation (T -> T), interval aware
    D = dense(H.get_differentiation_matrix(p=p))
    exp = np.zeros(N)
    d = C.chebder(c, p) / a**p if N > p else np.zeros(0)
    exp[: len(d)] = d
    tolD = 500 * EPS * N ** (2 * p) * cs / abs(a) ** p
    r.close(np.abs(D @ c - exp).max(), tolD, 'cheb-differentiation', f'N={N} p={p} [{x0},{x1}]')
    # T -> U conversion and back (N >= 2 needed for the k=2 diagonal)
    if N >= 2:
        T2U = dense(H.get_conv('T2U'))
        U2T = dense(H.get_conv('U2T'))
        pts = np.linspace(-0.93, 0.87, 7)
        cu = T2U @ c
        valU = sum(cu[n] * scs.eval_chebyu(n, pts) for n in range(N))
        r.close(np.abs(valU - C.chebval(pts, c)).max(), 500 * EPS * N * N * cs, 'T2U-conversion', f'N={N}')
        r.close(np.abs(T2U @ U2T - np.eye(N)).max(), 500 * EPS * N * N, 'T2U*U2T=I', f'N={N}')
        r.close(np.abs(dense(H.get_basis_change_matrix(conv='T2U')) - T2U).max(), 0.0, 'basis-change=T2U')
        # Dirichlet recombination: columns j >= 2 vanish at both ends
        D2T = dense(H.get_conv('D2T'))
        for j in range(2, N):
            col = D2T[:, j]
            r.close(max(abs(C.chebval(-1.0, col)), abs(C.chebval(1.0, col))), 100 * EPS * N, 'dirichlet-recombination', f'column {j}')
        r.close(np.abs(D2T @ dense(H.get_conv('T2D')) - np.eye(N)).max(), 500 * EPS * N * N, 'D2T*T2D=I')
        r.close(np.abs(dense(H.get_Dirichlet_recombination_matrix()) - D2T).max(), 0.0, 'recombination-matrix')
    # integration weights (interval aware): w.c = integral over [x0, x1]
    k = np.arange(N)
    ints = np.where(k % 2 == 0, 2.0 / (1.0 - k.astype(float) ** 2 + (k == 1)), 0.0)
    r.close(abs(np.asarray(H.get_integration_weights()) @ c - a * (ints @ c)), 200 * EPS * N * cs * abs(a), 'cheb-integration-weights', f'N={N} [{x0},{x1}]')
    # Dirichlet rows: values of the represented polynomial at reference coordinates -1, 0, 1
    for xr in (-1, 1, 0):
        row = np.asarray(H.get_BC('dirichlet', x=xr), dtype=float)
        r.close(abs(row @ c - C.chebval(float(xr), c)), 200 * EPS * N * cs, 'dirichlet-row', f'x={xr} N={N}')
    if reference:
        # reference-interval-only operators
        Sint = dense(H.get_integration_matrix())
        ci = C.chebint(c, lbnd=0)[:N]
        if N >= 2:
            r.close(np.abs(Sint @ c - np.pad(ci, (0, N - len(ci)))).max() if c[-1] == 0 else 0.0, 500 * EPS * N * cs, 'cheb-integration-matrix', f'N={N}')
        for xr in (-1, 1):
            row = np.asarray(H.get_BC('neumann', x=xr)).real
            r.close(abs(row @ c - C.chebval(float(xr), C.chebder(c))) if N > 1 else 0.0, 500 * EPS * N**3 * cs, 'neumann-row', f'x={xr} N={N}')
        r.close(abs(np.asarray(H.get_BC('integral')) @ c - ints @ c), 200 * EPS * N * cs, 'integral-row', f'N={N}')
    # ultraspherical: D_p maps T coefficients to C^(p) coefficients of the p-th derivative
    if N > p:
        Dp = dense(U.get_differentiation_matrix(p=p))
        got = Dp @ c
        pts = np.linspace(-0.91, 0.83, 6)
        val = sum(got[n] * scs.eval_gegenbauer(n, p, pts) for n in range(N))
        expv = C.chebval(pts, C.chebder(c, p)) / a**p
        r.close(np.abs(val - expv).max(), 2000 * EPS * N ** (2 * p) * cs / abs(a) ** p, 'ultraspherical-differentiation', f'N={N} p={p} [{x0},{x1}]')
        # agrees with the dense Chebyshev operator after conversion: D_p = S_{p-1}..S_0 D_T^p
        conv = np.eye(N)
        for lam in range(p):
            conv = dense(U.get_S(lam)) @ conv
        r.close(np.abs(Dp - conv @ D).max(), 2000 * EPS * N ** (2 * p) / abs(a) ** p, 'ultraspherical=dense-after-conversion', f'N={N} p={p}')
        r.close(np.abs(dense(U.get_basis_change_matrix(p_in=0, p_out=p)) - conv).max(), 100 * EPS * N, 'basis-change-chain', f'p={p}')
        back = dense(U.get_basis_change_matrix(p_in=p, p_out=0))
        condc = np.linalg.cond(conv)
        r.close(np.abs(back @ conv - np.eye(N)).max(), 100 * EPS * N * condc, 'basis-change-inverse', f'N={N} p={p}')
        # every pair of derivative bases (not only from/to base 0): upward = chain of S, downward = its inverse (both orders),
        # and conversions compose; the library itself only converts upward or down to base 0 (added after seed C17-3)
        def chain(lo, hi):
            m = np.eye(N)
            for lam_ in range(lo, hi):
                m = dense(U.get_S(lam_)) @ m
            return m

        for pa in range(0, p + 1):
            for pb in range(0, p + 1):
                B = dense(U.get_basis_change_matrix(p_in=pa, p_out=pb))
                r.label(f'basis-pair-{"up" if pb > pa else ("down" if pb < pa else "same")}{"-nonzero-target" if 0 < pb < pa else ""}')
                if pb >= pa:
                    r.close(np.abs(B - chain(pa, pb)).max(), 100 * EPS * N, 'basis-change-pair-up', f'N={N} {pa}->{pb}')
                else:
                    ch = chain(pb, pa)
                    cc = np.linalg.cond(ch)
                    r.close(np.abs(B @ ch - np.eye(N)).max(), 100 * EPS * N * cc, 'basis-change-pair-down-left-inverse', f'N={N} {pa}->{pb}')
                    r.close(np.abs(ch @ B - np.eye(N)).max(), 100 * EPS * N * cc, 'basis-change-pair-down-right-inverse', f'N={N} {pa}->{pb}')
                    # composition through base 0: (0 -> pb) o (pa -> 0) = (pa -> pb)
                    via0 = chain(0, pb) @ dense(U.get_basis_change_matrix(p_in=pa, p_out=0))
                    c0 = np.linalg.cond(chain(0, pa))
                    r.close(np.abs(B - via0).max(), 100 * EPS * N * c0 * max(1.0, np.abs(via0).max()), 'basis-change-pair-composition', f'N={N} {pa}->{pb}')
        # S_lambda: conversion between Gegenbauer bases, checked by evaluation
        lam = p
        Sl = dense(U.get_S(lam))
        cl = Sl @ c
        v0 = sum(c[n] * (scs.eval_gegenbauer(n, lam, pts) if lam > 0 else scs.eval_chebyt(n, pts)) for n in range(N))
        v1 = sum(cl[n] * scs.eval_gegenbauer(n, lam + 1, pts) for n in range(N))
        r.close(np.abs(v1 - v0).max(), 2000 * EPS * N ** (2 * lam + 2) * cs, 'S-lambda', f'N={N} lambda={lam}')
    if N >= 2:
        # ultraspherical integration matrix + constant: antiderivative vanishing at the left end of the interval
        cz = c.copy()
        cz[-1] = 0.0
        Su = dense(U.get_integration_matrix())
        Uh = Su @ cz
        Uh[0] = U.get_integration_constant(Uh, axis=-1)
        expi = a * C.chebint(cz, lbnd=-1)[:N]
        r.close(np.abs(Uh - expi).max(), 500 * EPS * N * cs * abs(a), 'ultraspherical-integration', f'N={N} [{x0},{x1}]')


@st.composite
def cheb_cases(draw):
    N = draw(st.integers(1, 64))
    if draw(st.integers(0, 3)) == 0:
        x0, x1 = -1.0, 1.0
    else:
        x0 = draw(st.sampled_from([-1.0, 0.0, -30.0, 2.5, 1e3, -1e-2]))
        x1 = x0 + draw(st.sampled_from([2.0, 0.1, 1.0, 3.7, 25.0]))
    return {'N': N, 'p': draw(st.integers(1, 3)), 'x0': float(x0), 'x1': float(x1), 'coeffs': draw(st.lists(S.small_float(-1, 1), min_size=N, max_size=N))}


# ----------------------------------------------------------------------------------------------- Fourier
def prop_fft(case, r):
    N, p = case['N'], case['p']
    x0, x1 = interval(case)
    Lx = x1 - x0
    r.label('fft', f'p{p}', 'odd' if N % 2 else 'even')
    if N >= 3:
        r.nontrivial(['fft', N, p, x0, x1])
    H = FFTHelper(N, x0=x0, x1=x1)
    x = np.asarray(H.get_1dgrid())
    r.close(np.abs(x - (x0 + Lx * np.arange(N) / N)).max(), 8 * EPS * max(abs(x0), abs(x1), 1.0), 'fft-grid')
    # full band of resolvable modes: |m| < N/2 (for odd N this includes the top mode (N-1)/2)
    mmax = (N - 1) // 2
    modes = list(range(-mmax, mmax + 1))
    amp = np.array([complex(*ab) for ab in case['amps'][: len(modes)]] + [0j] * max(0, len(modes) - len(case['amps'])))[: len(modes)]
    j = np.arange(N)
    s = j / N  # (x - x0)/L exactly

    def f(deriv):
        out = np.zeros(N, dtype=complex)
        for m, am in zip(modes, amp):
            kap = 2 * np.pi * m / Lx
            out += am * (1j * kap) ** deriv * np.exp(2j * np.pi * m * s)
        return out

    u = f(0)
    cs = max(1.0, np.abs(amp).max()) * len(modes)
    uhat = np.asarray(H.transform(u.copy()))
    exp_hat = np.zeros(N, dtype=complex)
    for m, am in zip(modes, amp):
        exp_hat[m % N] += N * am
    r.close(np.abs(uhat - exp_hat).max(), 200 * EPS * N * cs * N, 'fft-transform', f'N={N}')
    r.close(np.abs(np.asarray(H.itransform(uhat.copy())) - u).max(), 200 * EPS * N * cs, 'fft-roundtrip', f'N={N}')
    # wavenumbers: signed mode number times 2 pi / L at index m mod N
    k = np.asarray(H.get_wavenumbers())
    for m in modes:
        r.close(abs(k[m % N] - 2 * np.pi * m / Lx), 8 * EPS * (abs(m) + 1) * 2 * np.pi / Lx, 'fft-wavenumbers', f'N={N} mode {m}: {k[m % N]!r}')
    # differentiation in spectral space
    D = H.get_differentiation_matrix(p=p)
    du = np.asarray(H.itransform(np.asarray(D @ uhat)))
    scale = cs * (2 * np.pi * max(mmax, 1) / Lx) ** p
    r.close(np.abs(du - f(p)).max(), 500 * EPS * N * scale, 'fft-differentiation', f'N={N} p={p} L={Lx}')
    # integration of the zero-mean part
    Si = H.get_integration_matrix()
    z = uhat.copy()
    z[0] = 0
    iu = np.asarray(H.itransform(np.asarray(Si @ z)))
    expi = np.zeros(N, dtype=complex)
    for m, am in zip(modes, amp):
        if m != 0:
            expi += am / (2j * np.pi * m / Lx) * np.exp(2j * np.pi * m * s)
    r.close(np.abs(iu - expi).max(), 500 * EPS * N * cs * Lx, 'fft-integration', f'N={N}')
    # integration weights / integral row: integral over the domain from the zero mode
    a0 = amp[modes.index(0)]
    r.close(abs(np.asarray(H.get_integration_weights()) @ uhat - a0 * Lx), 500 * EPS * N * cs * Lx, 'fft-integration-weights', f'N={N}')
    r.close(abs(np.asarray(H.get_BC('integral')) @ uhat - a0 * Lx), 500 * EPS * N * cs * Lx, 'fft-integral-row', f'N={N}')
    if N % 2 == 0:
        row = np.asarray(H.get_BC('nyquist'))
        r.check(row[N // 2] == 1 and row.sum() == 1, 'nyquist-row', f'N={N}: {np.nonzero(row)[0]}')


@st.composite
def fft_cases(draw):
    N = draw(st.integers(1, 64))
    x0 = draw(st.sampled_from([0.0, -1.0, 2.5, -30.0, 1e3]))
    Lx = draw(st.sampled_from([2 * np.pi, 1.0, 0.1, 7.3]))
    amps = draw(st.lists(st.tuples(S.small_float(-1, 1), S.small_float(-1, 1)).map(list), min_size=N, max_size=N))
    return {'N': N, 'p': draw(st.integers(1, 3)), 'x0': float(x0), 'x1': float(x0 + Lx), 'amps': amps}


# ----------------------------------------------------------------------------------------------- N-D tensor products
BASES = {'fft': FFTHelper, 'chebychev': ChebychevHelper, 'ultraspherical': UltrasphericalHelper}


def prop_nd(case, r):
    axes = case['axes']
    r.label(f'dim{len(axes)}', '+'.join(b for b, n in axes))
    r.nontrivial(case)
    Hn = SpectralHelper()
    ones = []
    for base, n in axes:
        Hn.add_axis(base=base, N=n)
        ones.append(BASES[base](n))
    Hn.add_component('u')
    Hn.setup_fft()
    nd = len(axes)

    def kron_at(M1, ax):
        mats = [np.eye(n) for b, n in axes]
        mats[ax] = dense(M1)
        out = mats[0]
        for m in mats[1:]:
            out = np.kron(out, m)
        return out

    for ax in range(nd):
        D1 = ones[ax].get_differentiation_matrix()
        got = dense(Hn.get_differentiation_matrix(axes=(ax,)))
        exp = kron_at(D1, ax)
        r.close(np.abs(got - exp).max(), 100 * EPS * max(1.0, np.abs(exp).max()), 'nd-differentiation', f'axis {ax} {axes}')
        got = dense(Hn.get_integration_matrix(axes=(ax,)))
        exp = kron_at(ones[ax].get_integration_matrix(), ax)
        r.close(np.abs(got - exp).max(), 100 * EPS * max(1.0, np.abs(exp).max()), 'nd-integration', f'axis {ax} {axes}')
    if nd >= 2:
        got = dense(Hn.get_differentiation_matrix(axes=(0, 1)))
        exp = kron_at(ones[0].get_differentiation_matrix(), 0) @ kron_at(ones[1].get_differentiation_matrix(), 1)
        r.close(np.abs(got - exp).max(), 100 * EPS * max(1.0, np.abs(exp).max()), 'nd-mixed-derivative', f'{axes}')
    r.close(np.abs(dense(Hn.get_Id()) - np.eye(int(np.prod([n for b, n in axes])))).max(), 0.0, 'nd-identity')
    # transforms act axis by axis: separable data
    vecs = [np.array(case['data'][i][: n] + [0.0] * max(0, n - len(case['data'][i])))[:n] for i, (b, n) in enumerate(axes)]
    u = vecs[0]
    for v in vecs[1:]:
        u = np.multiply.outer(u, v)
    uh = np.asarray(Hn.transform(u[None, ...].astype(complex) if any(b == 'fft' for b, n in axes) else u[None, ...]))[0]
    exp = np.asarray(ones[0].transform(vecs[0].astype(complex) if axes[0][0] == 'fft' else vecs[0]))
    for i in range(1, nd):
        exp = np.multiply.outer(exp, np.asarray(ones[i].transform(vecs[i].astype(complex) if axes[i][0] == 'fft' else vecs[i])))
    r.close(np.abs(uh - exp).max(), 500 * EPS * max(1.0, np.abs(exp).max()) * np.prod([n for b, n in axes]), 'nd-transform-tensor', f'{axes}')


@st.composite
def nd_cases(draw):
    nd = draw(st.integers(2, 3))
    axes = []
    for i in range(nd):
        base = draw(st.sampled_from(['fft', 'chebychev', 'ultraspherical']))
        if i < nd - 1 and base != 'fft' and draw(st.booleans()):
            base = 'fft'
        axes.append([base, draw(st.integers(2, 6))])
    data = [draw(st.lists(S.small_float(-1, 1), min_size=6, max_size=6)) for _ in range(nd)]
    return {'axes': axes, 'data': data}


def known_match(fid, clause, case, failure):
    tag, msg = failure
    if fid == 'F12' and clause == 'chebyshev' and case.get('N') == 1:
        return tag.startswith('exception:ValueError@') and 'Offset 2' in msg
    return False


def clauses(tier):
    return [
        Clause('chebyshev', prop_cheb, strategy=cheb_cases(), examples={'quick': 500, 'thorough': 12000}),
        Clause('fourier', prop_fft, strategy=fft_cases(), examples={'quick': 400, 'thorough': 10000}),
        Clause('tensor', prop_nd, strategy=nd_cases(), examples={'quick': 150, 'thorough': 3000}),
    ]
