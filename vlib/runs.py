"""Run-level harness pieces: block observer, injection controller, scripted-residual sweeper, description builder.

None of this needs hooks in the repository: everything is passed through the public description / controller_params.
"""

import numpy as np

from pySDC.core.convergence_controller import ConvergenceController
from pySDC.implementations.controller_classes.controller_nonMPI import controller_nonMPI
from pySDC.implementations.convergence_controller_classes.check_convergence import CheckConvergence
from pySDC.implementations.sweeper_classes.generic_implicit import generic_implicit
from pySDC.implementations.sweeper_classes.imex_1st_order import imex_1st_order

from vlib import fixtures as F


def bits(x):
    return np.asarray(x).tobytes()


class StopRun(Exception):
    """raised by the observer to bound the cost of a generated run (the blocks seen so far are still judged)"""


class RunawayRun(Exception):
    """raised by the observer when a run needs more than HARD_BLOCK_LIMIT blocks: no generated run on the unchanged tree comes near it
    (the longest have 1500 steps), so this is a run that does not end - a count-based guard, reported as a failure by the runner"""


HARD_BLOCK_LIMIT = 20000


class Observer(ConvergenceController):
    """Snapshots every finished block *before* any other controller prepares the next one (control order -1000).
    Data goes to the shared list Observer.blocks (reset by the harness before each run)."""

    blocks = []
    max_blocks = None
    capture_nodes = False

    @classmethod
    def reset(cls, max_blocks=None, capture_nodes=False):
        cls.blocks = []
        cls.max_blocks = max_blocks
        cls.capture_nodes = capture_nodes

    def setup(self, controller, params, description, **kwargs):
        return {'control_order': -1000, **super().setup(controller, params, description, **kwargs)}

    def prepare_next_block(self, controller, S, size, time, Tend, MS=None, **kwargs):
        if MS is None or S is not MS[0]:
            return
        blk = []
        for T in MS:
            L = T.levels[0]
            blk.append(
                {
                    'slot': T.status.slot,
                    'time': L.time,
                    'dt': L.dt,
                    'restart': bool(T.status.get('restart')),
                    'rir': T.status.get('restarts_in_a_row'),
                    'iter': T.status.iter,
                    'u0': bits(L.u[0]),
                    'u0_id': id(L.u[0]),
                    'uend': None if L.uend is None else bits(L.uend),
                    'uend_val': None if L.uend is None else np.array(L.uend, copy=True),
                    'dt_new': L.status.dt_new,
                    'dts': [l.dt for l in T.levels],
                    'e_est': L.status.get('error_embedded_estimate'),
                    'e_extrap': L.status.get('error_extrapolation_estimate'),
                    'residual': L.status.residual,
                    'first': T.status.first,
                    'last': T.status.last,
                }
            )
            if type(self).capture_nodes:
                blk[-1]['U'] = [None if x is None else np.array(x, copy=True) for x in L.u]
                blk[-1]['F'] = [None if x is None else np.array(x, copy=True) for x in L.f]
                blk[-1]['level_residual'] = L.status.residual
        type(self).blocks.append(blk)
        if type(self).max_blocks is not None and len(type(self).blocks) >= type(self).max_blocks:
            raise StopRun()
        if len(type(self).blocks) >= HARD_BLOCK_LIMIT:
            raise RunawayRun(f'{len(type(self).blocks)} blocks and the run has not ended')


class Inject(ConvergenceController):
    """Injects restart requests / new step sizes / force flags from a script, at control order 50, i.e. after
    adaptivity-type controllers (-50) and before the limiters (91/92), restarting (95), spreading (100) and
    CheckConvergence (200).  Script: list of dicts {block, slot, restart, dt_new, force_done} (block = index of the
    block attempt counted from 0 in this run)."""

    def setup(self, controller, params, description, **kwargs):
        return {'control_order': 50, 'script': [], **super().setup(controller, params, description, **kwargs)}

    def __init__(self, controller, params, description, **kwargs):
        super().__init__(controller, params, description, **kwargs)
        self.block = -1
        self.table = {}
        for e in self.params.script:
            self.table[(e['block'], e['slot'])] = e

    def reset_status_variables(self, controller, **kwargs):
        self.block += 1

    def _entry(self, S):
        return self.table.get((self.block, S.status.slot))

    def _finishing(self, S):
        return CheckConvergence.check_convergence(S)

    def get_new_step_size(self, controller, S, **kwargs):
        e = self._entry(S)
        if e and e.get('dt_new') is not None and self._finishing(S):
            for L in S.levels:
                L.status.dt_new = e['dt_new']

    def determine_restart(self, controller, S, **kwargs):
        e = self._entry(S)
        if e and e.get('restart') and self._finishing(S):
            S.status.restart = True

    def post_run_processing(self, controller, S, **kwargs):
        self.block = -1  # a second run on the same controller starts counting again


class ScriptedResidual:
    """Mixin: performs the real sweep / residual computation, then overwrites level-0 residual from a table keyed by
    (slot, iteration). Table lives on the class (picklable by reference)."""

    table = {}
    default = 1.0

    def compute_residual(self, stage=''):
        super().compute_residual(stage=stage)
        L = self.level
        if L.level_index == 0:
            S = type(self).current_steps.get(id(L))
            if S is not None:
                T = type(self).table
                tk = ('t', round(L.time, 9), S.status.iter)
                L.status.residual = T[tk] if tk in T else T.get((S.status.slot, S.status.iter), type(self).default)


class ScriptedImplicit(ScriptedResidual, generic_implicit):
    table = {}
    current_steps = {}


class ScriptedIMEX(ScriptedResidual, imex_1st_order):
    table = {}
    current_steps = {}


def bind_scripted(controller, sweeper_cls, table, default=1.0):
    sweeper_cls.table = dict(table)
    sweeper_cls.default = default
    sweeper_cls.current_steps = {id(S.levels[0]): S for S in controller.MS}


def scalar_description(lam=-1.0, dt=0.1, maxiter=2, restol=-1.0, num_nodes=2, quad_type='RADAU-RIGHT', QI='IE', levels=1, extra_cc=None, sweeper=None, nsweeps=None, node_type='LEGENDRE', initial_guess='spread', residual_type='full_abs', coll_update=False):
    """cheap scalar Dahlquist description (fixture LinVec with 1x1 matrix so that call counters exist)"""
    from pySDC.implementations.transfer_classes.TransferMesh_NoCoarse import mesh_to_mesh as nocoarse

    lo = 2 if quad_type in ('LOBATTO', 'RADAU-LEFT') else 1
    nn = num_nodes if levels == 1 else [num_nodes] + [max(lo, num_nodes - 1 - i) for i in range(levels - 1)]
    desc = {
        'problem_class': F.LinVec,
        'problem_params': {'A': np.array([[lam]]), 'g': None},
        'sweeper_class': sweeper or generic_implicit,
        'sweeper_params': {'num_nodes': nn, 'quad_type': quad_type, 'node_type': node_type, 'QI': QI, 'initial_guess': initial_guess, 'do_coll_update': coll_update},
        'level_params': {'dt': dt, 'restol': restol, 'residual_type': residual_type},
        'step_params': {'maxiter': maxiter},
        'convergence_controllers': dict(extra_cc or {}),
    }
    if nsweeps is not None:
        desc['level_params']['nsweeps'] = nsweeps
    if levels > 1:
        desc['space_transfer_class'] = nocoarse
    return desc


def make_controller(num_procs, desc, hooks=(), **cparams):
    params = F.quiet_controller_params(hook_class=list(hooks), **cparams)
    return controller_nonMPI(num_procs=num_procs, controller_params=params, description=desc)


def ulp(x):
    return float(np.spacing(abs(float(x)))) if x != 0 else float(np.finfo(float).tiny)
