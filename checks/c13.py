"""C13 - data types have value semantics and runs never corrupt caller or logged data.

(a) expression programs: small generated programs (binary/unary arithmetic with scalars, ndarrays and meshes in both
    positions, augmented assignment, aliasing, copy construction, slice and component writes, numpy ufuncs/reductions)
    are executed on the real data types and on a plain-numpy shadow interpreter with explicit copies; after every
    statement all live names must agree with their shadows bit for bit and carry the expected type.
(b) particles / fields: operands untouched, result types, copy independence, abs = max norm.
(c) runs: the caller's u0 is bit-identical afterwards; every solution logged (LogSolution, LogSolutionAfterIteration)
    or returned still equals the deep copy taken at logging time when the run has finished.
"""

import numpy as np
from hypothesis import strategies as st

from vlib.runner import Clause
from vlib import strats as S
from vlib import runs as R
from vlib import fixtures as F

from pySDC.core.hooks import Hooks
from pySDC.helpers.stats_helper import get_sorted
from pySDC.implementations.datatype_classes.mesh import mesh, imex_mesh, comp2_mesh
from pySDC.implementations.datatype_classes.particles import particles, fields, acceleration
from pySDC.projects.DAE.misc.meshDAE import MeshDAE
from pySDC.implementations.hooks.log_solution import LogSolution, LogSolutionAfterIteration
from pySDC.implementations.sweeper_classes.generic_implicit import generic_implicit
from pySDC.implementations.sweeper_classes.imex_1st_order import imex_1st_order
from pySDC.implementations.sweeper_classes.explicit import explicit
from pySDC.implementations.sweeper_classes import Runge_Kutta as RKmod
from pySDC.implementations.controller_classes.controller_nonMPI import controller_nonMPI
from pySDC.implementations.controller_classes.controller_ParaDiag_nonMPI import controller_ParaDiag_nonMPI
from pySDC.implementations.sweeper_classes.ParaDiagSweepers import QDiagonalization
from pySDC.implementations.problem_classes.TestEquation_0D import testequation0d

PROPERTY = 'C13'
LEVEL = 'exploration'
RULE = (
    'programs clause: Hypothesis draws a data type (mesh, imex_mesh, comp2_mesh, MeshDAE, acceleration, particles.position/velocity), shape (1-3 D, sizes 1-4), dtype (float64/complex128) '
    'and a program of <= 8 statements over 4 names; particles clause: particles/fields programs; runs clause: sweeper (implicit, explicit, IMEX, every RK/IMEX-RK class, ParaDiag) x controller '
    '(1-3 parallel steps, 1-2 levels) with solution logging. Non-trivial = program with an augmented assignment on an aliased name or a component/slice write (programs) / >= 2 steps and >= 2 logged solutions (runs).'
)
ASSUMPTIONS = [
    'value semantics: arithmetic and augmented assignment bind a new object; only explicit slice/component writes act in place (and are then visible through aliases)',
    'charge/mass arrays of particles are treated as constants and not written by the generated programs',
]

MESH_TYPES = {'mesh': mesh, 'imex_mesh': imex_mesh, 'comp2_mesh': comp2_mesh, 'MeshDAE': MeshDAE, 'acceleration': acceleration, 'position': particles.position, 'velocity': particles.velocity}
UFUNCS = {'sin': np.sin, 'exp': np.exp, 'conj': np.conj, 'square': np.square, 'negative': np.negative}
OPS = {'+': lambda a, b: a + b, '-': lambda a, b: a - b, '*': lambda a, b: a * b}


def make(cls, shape, dtype, data):
    init = (shape if len(shape) != 1 else shape[0], None, np.dtype(dtype))
    if len(shape) == 0:
        init = ((), None, np.dtype(dtype))
    x = cls(init)
    vals = np.resize(np.array(data, dtype=float), x.shape)
    if np.dtype(dtype).kind == 'c':
        vals = vals + 1j * np.roll(vals, 1)
    x[...] = vals
    return x


def operand(spec, names, shadows, shape_full, dtype):
    kind = spec[0]
    if kind == 'var':
        return names[spec[1]], shadows[spec[1]]
    if kind == 'scalar':
        v = complex(spec[1], spec[2]) if np.dtype(dtype).kind == 'c' and spec[2] else float(spec[1])
        return v, v
    arr = np.resize(np.array(spec[1], dtype=float), shape_full).astype(dtype)
    return arr, arr.copy()


def prop_programs(case, r):
    cls = MESH_TYPES[case['type']]
    shape = tuple(case['shape'])
    dtype = case['dtype']
    r.label(case['type'], dtype, f'{len(shape)}d')
    names = []
    shadows = []  # plain ndarray per name; aliasing = same shadow object
    for i in range(4):
        x = make(cls, shape, dtype, case['init'][i])
        names.append(x)
        shadows.append(np.array(x, copy=True).view(np.ndarray))
    full = names[0].shape
    comps = getattr(cls, 'components', None)
    aliased_aug = False
    inplace = False

    def check_all(step):
        for i, (x, s) in enumerate(zip(names, shadows)):
            if not isinstance(x, np.ndarray):
                continue
            if type(x) is not cls:
                r.fail('type-changed', f'after statement {step} ({case["program"][step][0]}): name v{i} has type {type(x).__name__}, expected {cls.__name__}')
                return False
            if x.shape != s.shape or not np.array_equal(np.asarray(x), s, equal_nan=True):
                r.fail('value-differs-from-shadow', f'after statement {step} {case["program"][step]}: v{i} differs from the value-semantics model (operand modified through an alias?)')
                return False
        return True

    for step, st_ in enumerate(case['program']):
        kind = st_[0]
        if kind == 'bin':
            _, dst, op, a, b = st_
            ra, sa = operand(a, names, shadows, full, dtype)
            rb, sb = operand(b, names, shadows, full, dtype)
            if not isinstance(ra, np.ndarray) and not isinstance(rb, np.ndarray):
                continue
            if not isinstance(ra, mesh) and not isinstance(rb, mesh):
                continue
            names[dst] = OPS[op](ra, rb)
            shadows[dst] = np.asarray(OPS[op](np.asarray(sa) if isinstance(sa, np.ndarray) else sa, np.asarray(sb) if isinstance(sb, np.ndarray) else sb))
        elif kind == 'aug':
            _, var, op, b = st_
            rb, sb = operand(b, names, shadows, full, dtype)
            n_alias = sum(1 for x in names if x is names[var])
            if n_alias > 1:
                aliased_aug = True
            x = names[var]
            if op == '+':
                x += rb
            elif op == '-':
                x -= rb
            else:
                x *= rb
            # value semantics: the name is re-bound to a new object, other names keep the old value
            old_shadow = shadows[var]
            names[var] = x
            shadows[var] = np.asarray(OPS[op](old_shadow, np.asarray(sb) if isinstance(sb, np.ndarray) else sb))
        elif kind == 'alias':
            _, dst, src = st_
            names[dst] = names[src]
            shadows[dst] = shadows[src]
        elif kind == 'copy':
            _, dst, src = st_
            srcobj = names[src]
            names[dst] = cls(srcobj)
            shadows[dst] = shadows[src].copy()
            r.check(names[dst] is not srcobj and not np.shares_memory(np.asarray(names[dst]), np.asarray(srcobj)), 'copy-shares-memory', f'statement {step}: {cls.__name__}(x) shares storage with x')
        elif kind == 'neg':
            _, dst, src = st_
            names[dst] = -names[src]
            shadows[dst] = -shadows[src]
        elif kind == 'abs':
            _, src = st_
            val = abs(names[src])
            exp = float(np.abs(shadows[src]).max()) if shadows[src].size else 0.0
            r.check(isinstance(val, float), 'abs-type', f'abs returns {type(val).__name__}')
            r.check(val == exp, 'abs-not-max-norm', f'abs(x) = {val!r}, max|x_i| = {exp!r}')
            # norm axioms on this value: homogeneity and triangle inequality with another name
            other = names[(src + 1) % 4]
            if isinstance(other, mesh) and other.shape == names[src].shape:
                r.check(abs(names[src] + other) <= abs(names[src]) + abs(other) + 1e-12 * (exp + 1), 'abs-triangle', '')
            r.check(abs(2.0 * names[src]) == 2.0 * val or abs(abs(2.0 * names[src]) - 2.0 * val) <= 1e-15 * max(val, 1.0), 'abs-homogeneity', '')
            continue
        elif kind == 'setitem':
            _, var, value = st_
            inplace = True
            names[var][...] = value
            shadows[var][...] = value  # in place: visible through every alias (same shadow object)
        elif kind == 'setrow':
            _, var, value = st_
            if names[var].ndim == 0 or names[var].shape[0] == 0:
                continue
            inplace = True
            names[var][0] = value
            shadows[var][0] = value
        elif kind == 'compwrite':
            _, var, ci, value = st_
            if not comps:
                continue
            inplace = True
            view = getattr(names[var], comps[ci % len(comps)])
            r.check(type(view) is mesh or isinstance(view, mesh), 'component-view-type', f'{type(view).__name__}')
            r.check(np.shares_memory(np.asarray(view), np.asarray(names[var])), 'component-not-a-view', f'{comps[ci % len(comps)]} does not share the parent buffer')
            view[...] = value
            shadows[var][ci % len(comps)][...] = value
        elif kind == 'slicecomp':
            _, var, how, ci, value = st_
            if not comps or names[var].ndim < 2:
                continue
            x = names[var]
            if how == 'stride':
                sub, ssub = x[:, ::2], shadows[var][:, ::2]
            elif how == 'tail':
                sub, ssub = x[:, 1:], shadows[var][:, 1:]
            elif how == 'reverse':
                sub, ssub = x[:, ::-1], shadows[var][:, ::-1]
            else:
                if x.ndim < 3:
                    continue
                sub, ssub = x[:, :, 0], shadows[var][:, :, 0]
            if sub.shape[0] != len(comps) or sub.size == 0:
                continue
            inplace = True
            r.check(type(sub) is cls, 'slice-type', f'slicing {cls.__name__} gives {type(sub).__name__}')
            view = getattr(sub, comps[ci % len(comps)])
            r.check(np.shares_memory(np.asarray(view), np.asarray(x)), 'component-not-a-view', f'{comps[ci % len(comps)]} of a {how} slice does not share the parent buffer')
            view[...] = value
            ssub[ci % len(comps)][...] = value  # numpy view semantics: written through to the parent shadow
        elif kind == 'ufunc':
            _, dst, name, src = st_
            names[dst] = UFUNCS[name](names[src])
            shadows[dst] = np.asarray(UFUNCS[name](shadows[src]))
        elif kind == 'reduce':
            _, src = st_
            r.check(np.sum(names[src]) == np.sum(shadows[src]) or np.isnan(np.sum(shadows[src])), 'reduction', 'np.sum differs')
            continue
        if not check_all(step):
            return
    if aliased_aug or inplace:
        r.nontrivial([case['type'], dtype, shape, [s[0] for s in case['program']]])
    if aliased_aug:
        r.label('aug-on-aliased-name')
    if inplace:
        r.label('in-place-write')


@st.composite
def program_cases(draw):
    tname = draw(st.sampled_from(sorted(MESH_TYPES)))
    nd = draw(st.integers(1, 3))  # 0-D meshes cannot be copy-constructed (IndexError in mesh.__new__): outside the supported shapes
    shape = [draw(st.integers(1, 4)) for _ in range(nd)]
    dtype = draw(st.sampled_from(['float64', 'complex128']))
    vals = st.lists(S.small_float(-3, 3), min_size=1, max_size=6)
    init = [draw(vals) for _ in range(4)]

    def opnd():
        k = draw(st.integers(0, 5))
        if k <= 2:
            return ['var', draw(st.integers(0, 3))]
        if k <= 4:
            return ['scalar', draw(S.small_float(-2, 2)), draw(st.sampled_from([0.0, 0.0, 1.5]))]
        return ['array', draw(vals)]

    prog = []
    for _ in range(draw(st.integers(1, 8))):
        kind = draw(st.sampled_from(['bin', 'bin', 'aug', 'aug', 'alias', 'copy', 'neg', 'abs', 'setitem', 'setrow', 'compwrite', 'slicecomp', 'ufunc', 'reduce']))
        if kind == 'bin':
            prog.append(['bin', draw(st.integers(0, 3)), draw(st.sampled_from('+-*')), opnd(), opnd()])
        elif kind == 'aug':
            prog.append(['aug', draw(st.integers(0, 3)), draw(st.sampled_from('+-*')), opnd()])
        elif kind in ('alias', 'copy', 'neg'):
            prog.append([kind, draw(st.integers(0, 3)), draw(st.integers(0, 3))])
        elif kind in ('abs', 'reduce'):
            prog.append([kind, draw(st.integers(0, 3))])
        elif kind in ('setitem', 'setrow'):
            prog.append([kind, draw(st.integers(0, 3)), draw(S.small_float(-2, 2))])
        elif kind == 'compwrite':
            prog.append(['compwrite', draw(st.integers(0, 3)), draw(st.integers(0, 1)), draw(S.small_float(-2, 2))])
        elif kind == 'slicecomp':
            prog.append(['slicecomp', draw(st.integers(0, 3)), draw(st.sampled_from(['stride', 'tail', 'reverse', 'plane'])), draw(st.integers(0, 1)), draw(S.small_float(-2, 2))])
        else:
            prog.append(['ufunc', draw(st.integers(0, 3)), draw(st.sampled_from(sorted(UFUNCS))), draw(st.integers(0, 3))])
    return {'type': tname, 'shape': shape, 'dtype': dtype, 'init': init, 'program': prog}


# ----------------------------------------------------------------------------------------------- particles / fields
def snap_p(x):
    if isinstance(x, particles):
        return (np.asarray(x.pos).tobytes(), np.asarray(x.vel).tobytes(), x.q.tobytes(), x.m.tobytes())
    return (np.asarray(x.elec).tobytes(), np.asarray(x.magn).tobytes())


def prop_particles(case, r):
    kind = case['kind']
    n = case['n']
    init = ((3, n), None, np.dtype('float64'))
    r.label(kind)

    def mk(vals):
        if kind == 'particles':
            x = particles(init)
            x.pos[:] = np.resize(np.array(vals, float), x.pos.shape)
            x.vel[:] = -2.0 * np.resize(np.array(vals[::-1], float), x.vel.shape)
            x.q[:] = 1.5
            x.m[:] = 0.5
        else:
            x = fields(init)
            x.elec[:] = np.resize(np.array(vals, float), x.elec.shape)
            x.magn[:] = -2.0 * np.resize(np.array(vals[::-1], float), x.magn.shape)
        return x

    cls = particles if kind == 'particles' else fields
    a, b = mk(case['a']), mk(case['b'])
    sa, sb = snap_p(a), snap_p(b)
    parts = (lambda x: (np.asarray(x.pos), np.asarray(x.vel))) if kind == 'particles' else (lambda x: (np.asarray(x.elec), np.asarray(x.magn)))
    r.nontrivial([kind, n, case['a'], case['b'], case['fac']])
    for name, fn, ref in (('add', lambda: a + b, lambda p, q: p + q), ('sub', lambda: a - b, lambda p, q: p - q)):
        c = fn()
        r.check(type(c) is cls, f'{kind}-{name}-type', type(c).__name__)
        for pc, pa, pb in zip(parts(c), parts(a), parts(b)):
            r.check(np.array_equal(pc, ref(pa, pb)), f'{kind}-{name}-value', '')
            r.check(not np.shares_memory(pc, pa) and not np.shares_memory(pc, pb), f'{kind}-{name}-shares-memory', 'result shares pos/vel storage with an operand')
        r.check(snap_p(a) == sa and snap_p(b) == sb, f'{kind}-{name}-operand-modified', '')
        # writing into the result must not leak into the operands
        for pc in parts(c):
            pc[...] = 7.0
        r.check(snap_p(a) == sa and snap_p(b) == sb, f'{kind}-{name}-result-write-leaks', 'writing into the result changed an operand')
    c = case['fac'] * a
    r.check(type(c) is cls, f'{kind}-rmul-type', type(c).__name__)
    for pc, pa in zip(parts(c), parts(a)):
        r.check(np.array_equal(pc, case['fac'] * pa), f'{kind}-rmul-value', '')
    r.check(snap_p(a) == sa, f'{kind}-rmul-operand-modified', '')
    d = cls(a)
    r.check(type(d) is cls and snap_p(d) == sa, f'{kind}-copy-value', '')
    for pd, pa in zip(parts(d), parts(a)):
        r.check(not np.shares_memory(pd, pa), f'{kind}-copy-shares-memory', '')
    if kind == 'particles':
        r.check(not np.shares_memory(d.q, a.q) and not np.shares_memory(d.m, a.m), 'particles-copy-shares-q-m', '')
        exp = max(float(np.abs(np.asarray(a.pos)).max()), float(np.abs(np.asarray(a.vel)).max()))
        r.check(float(abs(a)) == exp, 'particles-abs-max-norm', f'{abs(a)!r} vs {exp!r}')
        aug = cls(a)
        alias = aug
        aug += b
        r.check(snap_p(alias) == sa or alias is not aug, 'particles-aug-modified-alias', 'x += y changed the object another name refers to')
        r.check(snap_p(a) == sa and snap_p(b) == sb, 'particles-aug-operand-modified', '')


@st.composite
def particle_cases(draw):
    vals = st.lists(S.small_float(-3, 3), min_size=2, max_size=6)
    return {'kind': draw(st.sampled_from(['particles', 'fields'])), 'n': draw(st.integers(1, 3)), 'a': draw(vals), 'b': draw(vals), 'fac': draw(S.small_float(-2, 2))}


# ----------------------------------------------------------------------------------------------- run level
class Keeper(Hooks):
    """copies every logged solution at logging time (placed after the logging hooks in the hook list)"""

    copies = []

    def post_step(self, step, level_number):
        super().post_step(step, level_number)
        L = step.levels[level_number]
        type(self).copies.append(('step', L.time + L.dt, step.status.iter, np.array(L.uend, copy=True), L.uend))

    def post_iteration(self, step, level_number):
        super().post_iteration(step, level_number)
        L = step.levels[level_number]
        if L.uend is not None:
            type(self).copies.append(('iter', L.time + L.dt, step.status.iter, np.array(L.uend, copy=True), L.uend))


class Poke(Hooks):
    """in-place write into node 0 of a running step at a chosen (time, iteration), like the shipped FaultInjector hook"""

    where = None  # (step index in run, iteration)
    count = 0

    def pre_step(self, step, level_number):
        super().pre_step(step, level_number)
        type(self).count += 1
        step.levels[0].status.__dict__.setdefault('_poke_idx', None)
        self._idx = getattr(self, '_idx', {})
        self._idx[step.status.slot] = type(self).count

    def pre_iteration(self, step, level_number):
        super().pre_iteration(step, level_number)
        w = type(self).where
        if w is not None and self._idx.get(step.status.slot) == w[0] and step.status.iter == w[1]:
            L = step.levels[0]
            L.u[0][...] = np.asarray(L.u[0]) + 0.5


RK = {n: c for n, c in vars(RKmod).items() if isinstance(c, type) and issubclass(c, RKmod.RungeKutta) and c.matrix is not None}


def prop_runs(case, r):
    sw = case['sweeper']
    n = case['n']
    A = np.array(S.shape_matrix(case['B'], 'stable'))
    A2 = 0.3 * np.array(S.shape_matrix(case['B2'], 'rot'))
    hooks = [LogSolution, LogSolutionAfterIteration, Keeper] if case['log_iter'] else [LogSolution, Keeper]
    if case.get('poke'):
        hooks = hooks + [Poke]
    Poke.where = tuple(case['poke']) if case.get('poke') else None
    Poke.count = 0
    level_params = {'dt': case['dt'], 'restol': -1.0}
    sp = {'num_nodes': case['num_nodes'], 'quad_type': case['quad_type'], 'do_coll_update': case['coll_update']}
    step_params = {'maxiter': case['maxiter']}
    P = case['num_procs']
    desc = {}
    paradiag = False
    if sw == 'generic_implicit':
        sc, pc, pp = generic_implicit, F.LinVec, {'A': A, 'g': case['g']}
        sp['QI'] = case['QI']
    elif sw == 'explicit':
        sc, pc, pp = explicit, F.LinVec, {'A': 0.3 * A, 'g': case['g']}
    elif sw == 'imex_1st_order':
        sc, pc, pp = imex_1st_order, F.LinVecIMEX, {'AI': A, 'AE': A2, 'gI': case['g'], 'gE': None}
    elif sw == 'paradiag':
        paradiag = True
        sc, pc, pp = QDiagonalization, testequation0d, {'lambdas': np.array([-1.0 + 0.5j, -0.3]), 'u0': 1.0}
        sp = {'num_nodes': case['num_nodes'], 'quad_type': 'RADAU-RIGHT'}
        level_params['restol'] = 1e-9
        step_params = {'maxiter': 20}
    else:
        sc = RK[sw]
        sp = {}
        step_params = {'maxiter': 1}
        if issubclass(sc, RKmod.RungeKuttaIMEX):
            pc, pp = F.LinVecIMEX, {'AI': A, 'AE': A2, 'gI': case['g'], 'gE': None}
        else:
            pc, pp = F.LinVec, {'A': A if sc.get_Butcher_tableau().implicit else 0.3 * A, 'g': case['g']}
    desc.update({'problem_class': pc, 'problem_params': pp, 'sweeper_class': sc, 'sweeper_params': sp, 'level_params': level_params, 'step_params': step_params})
    r.label(sw if sw in ('generic_implicit', 'explicit', 'imex_1st_order', 'paradiag') else 'RK:' + sw, f'procs{P}')
    Keeper.copies = []
    if paradiag:
        ctrl = controller_ParaDiag_nonMPI(num_procs=P, controller_params=F.quiet_controller_params(hook_class=hooks, alpha=1e-4), description=desc)
    else:
        if sw not in ('generic_implicit', 'explicit', 'imex_1st_order'):
            P = 1
        ctrl = controller_nonMPI(num_procs=P, controller_params=F.quiet_controller_params(hook_class=hooks, mssdc_jac=case['jac']), description=desc)
    prob = ctrl.MS[0].levels[0].prob
    u0 = prob.dtype_u(prob.init)
    u0[:] = np.resize(np.array(case['u0'], dtype=float), u0.shape)
    u0b = np.asarray(u0).tobytes()
    nsteps = P * case['nblocks']
    uend, stats = ctrl.run(u0=u0, t0=0.0, Tend=case['dt'] * nsteps)
    uend_copy = np.array(uend, copy=True)
    r.check(np.asarray(u0).tobytes() == u0b, 'caller-u0-modified', 'run changed the initial value object passed by the caller')
    r.check(uend is not u0 and not np.shares_memory(np.asarray(uend), np.asarray(u0)), 'returned-aliases-u0', '')
    # every logged / seen solution still equals its copy taken at logging time
    for kind, t, it, cp, obj in Keeper.copies:
        if not np.array_equal(np.asarray(obj), cp, equal_nan=True):
            r.fail('solution-changed-after-logging', f'{sw}: solution seen at the {kind} callback for t={t!r} (iter {it}) was modified later in the run')
            break
    logged = get_sorted(stats, type='u', sortby='time')
    by_time = {}
    for kind, t, it, cp, obj in Keeper.copies:
        by_time.setdefault((kind, round(t, 12)), []).append(cp)
    for t, val in get_sorted(stats, type='u', sortby='time', recomputed=False):
        cands = by_time.get(('step', round(t, 12)), []) + by_time.get(('iter', round(t, 12)), [])
        if cands and not any(np.array_equal(np.asarray(val), c, equal_nan=True) for c in cands):
            r.fail('logged-solution-corrupted', f'{sw}: logged solution at t={t!r} equals none of the values it had when it was logged')
            break
    # a second run on the same controller must not disturb what the first one returned
    u1, _ = ctrl.run(u0=u0, t0=0.0, Tend=case['dt'] * nsteps)
    r.check(np.array_equal(np.asarray(uend), uend_copy, equal_nan=True), 'returned-solution-changed-by-later-run', f'{sw}')
    if nsteps >= 2 and len(logged) >= 2:
        r.nontrivial([sw, P, case['nblocks'], case['log_iter'], case['num_nodes'], case['quad_type'], case['coll_update']])


@st.composite
def run_cases(draw):
    sw = draw(st.sampled_from(['generic_implicit', 'explicit', 'imex_1st_order', 'paradiag'] + sorted(RK)))
    n = draw(st.integers(1, 3))
    ns = draw(S.node_sets(max_nodes=3, need_right=True))
    return {
        'sweeper': sw, 'n': n, 'B': draw(S.mat(n)), 'B2': draw(S.mat(n)), 'g': draw(S.forcing(n)), 'u0': draw(S.vec(n)), 'dt': draw(st.sampled_from([0.05, 0.1, 0.2])),
        'num_nodes': ns['num_nodes'], 'quad_type': ns['quad_type'], 'coll_update': draw(st.booleans()), 'QI': draw(st.sampled_from(['IE', 'LU', 'MIN-SR-S'])),
        'maxiter': draw(st.integers(1, 3)), 'num_procs': draw(st.integers(1, 3)), 'nblocks': draw(st.integers(1, 3)), 'jac': draw(st.booleans()), 'log_iter': draw(st.booleans()),
        'poke': [draw(st.integers(1, 6)), 1] if draw(st.booleans()) else None,
    }  # fmt: skip


def known_match(fid, clause, case, failure):
    return False


def clauses(tier):
    return [
        Clause('programs', prop_programs, strategy=program_cases(), examples={'quick': 3000, 'thorough': 80000}),
        Clause('particles', prop_particles, strategy=particle_cases(), examples={'quick': 300, 'thorough': 5000}),
        Clause('runs', prop_runs, strategy=run_cases(), examples={'quick': 400, 'thorough': 8000}),
    ]
