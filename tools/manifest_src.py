NOTES = ("All checks: cwd=/verif, ./check <ID> <quick|thorough>, VERIF_SEED honoured, exit 0 held / 1 VIOLATION / 2 harness error or "
         "inconclusive. Known findings are listed in known_findings.json and printed as KNOWN-FINDING lines. pySDC is pure Python: "
         "checks import it from /repo's working tree (sys.path[0]) and verify that.")
NOT_APPLICABLE = {}
CHECKS = {
 'C05': dict(
  technique='property-based testing: exhaustive family grid + Hypothesis-generated intervals against a 50-digit mpmath moment oracle and affine covariance',
  text='Every node family x quadrature type x M=1..16 is enumerated on five fixed intervals and ~1600 (quick) / 40000 (thorough) generated intervals; '
       'node ordering/end-point membership, exactness of weights (degree < order) and of Q/S (degree < M), zero padding, cumsum/diff relations, delta_m and '
       'affine covariance are judged against extended-precision arithmetic. Exploration: held on everything generated, no absence proof.',
  note='Trusted: mpmath arithmetic; tolerance model C*eps*Lebesgue(M)*(1+max|t|/h) (calibrated with >100x margin). Known finding F2 (qmat end-point snapping) is excluded by a matcher computed from reference nodes only.'),
 'C18': dict(
  technique='property-based testing: exhaustive stencil grid + Hypothesis-generated offsets/sizes/boundary settings against exact rational (fractions) weights, independently built expected matrices and polynomial reproduction',
  text='All derivative x order x layout stencils are enumerated and custom offset sets generated; weights are compared with exact rational Vandermonde solutions; '
       'periodic matrices against wrap-modulo-size construction, Dirichlet/Neumann matrices and boundary vectors against an independent closure construction and '
       'A p + b = p^(d) for all monomials within the closure exactness degree, 1-3 D as Kronecker sums. Exploration level.',
  note='Trusted: fractions arithmetic; tolerance 1e-9..1e-8 relative to row magnitude. In dim>=2 only one constant boundary value per side can be represented by the API and is what is tested. Two defects found and fixed (F0, F13).'),
 'C02': dict(
  technique='property-based testing: Hypothesis-generated node states/preconditioners/operators against a dense global (kron + solve) reference model of the sweep; reflection over all Runge-Kutta classes',
  text='A real Level is built through Step(description) with fixture linear problems (dense A, optional forcing, mass matrix, two-operator splittings); node values are arbitrary with consistent f, tau random. '
       'One update_nodes()/integrate()/compute_end_point() of generic_implicit, explicit, imex_1st_order, imex_1st_order_mass, multi_implicit and every RungeKutta/RungeKuttaIMEX subclass is compared with the algebraic iteration; '
       'QDelta matrices are cross-checked against an independent qmat construction, closed forms and the k-refresh rule. Exploration level.',
  note='Trusted: numpy dense solves; qmat as the definition of the named preconditioners (cross-checked with closed forms for IE/EE/PIC/IEpar/MIN-SR-NS). Ill-conditioned node systems (cond>1e8) are discarded and counted. Known finding F10 (LDU with left end node).'),
 'C16': dict(
  level='fault_enumeration',
  technique='model-based property testing of file histories with exhaustive crash-offset enumeration (every byte of header creation and of each append) and exhaustive block-decomposition enumeration',
  text='A reference model (header + list of (time, field bytes)) is run in lockstep with FieldsIO (Scalar, Rectilinear 1-3D, every available dtype): generated histories of create/add/crash/re-open (generic and specialised)/read/'
       're-initialise/fresh-process read with arbitrary bit patterns; for 14 small configurations every crash offset is enumerated. BlockDecomposition is enumerated for 1..64 ranks x all 1-D/2-D grids (<=9 quick, <=16 thorough) x both algorithms and sampled in 3-D.',
  note='Crash model: an interrupted append leaves a prefix of the record (sequential write stream). MPI-IO paths cannot run without mpi4py and are not covered. One defect (F1) found and fixed.'),
 'C11': dict(
  technique='property-based testing: exhaustive grid-size/order enumeration and generated node-set pairs against exact Lagrange weights on independently selected nearest points; band-limited data for FFT transfers',
  text='Pcoll/Rcoll of a real two-level Step are checked on monomials, row sums, R*P=I and an independent Lagrange matrix; every mesh_to_mesh interpolation row (periodic 2^k, Dirichlet 2^k-1, orders 2-8, nested shortcut on/off) is compared with exact rational Lagrange weights on the p nearest coarse points chosen in integer index arithmetic; '
       '2-D/3-D as Kronecker products, per component for imex/comp2 meshes, type preservation; FFT prolongation exact on band-limited data and injection after it; identity transfers copy and keep the type.',
  note='Restriction is checked for structure (positive multiple of the transposed interpolation of the restriction order, per component/dimension), not for a particular scaling, which the statement does not fix. Known finding F14 (periodic order == number of coarse points); F7 fixed.'),
 'C06': dict(
  technique='property-based testing: Hypothesis-generated (t0, dt, Tend, block size, levels, restart/step-size scripts) runs of the real controller; invariants over observer snapshots; exact-rational step counting',
  text='Each generated run of controller_nonMPI is observed block by block through a harness convergence controller; accepted steps are reconstructed and judged for contiguous tiling from t0, bit-exact value chaining, restart continuation at the restarted step, no start at/after Tend, no early stop, returned value == last accepted end value, caller u0 untouched/copied, and (fixed dt) the exact number of steps computed in rational arithmetic.',
  note='Times are compared up to 4 ulp of the largest operand. The step-count clause leaves a thin band (1e-9..1e-6 from an integer ratio) unjudged. Known finding F4 (k+1 steps from the absolute 10*eps activity threshold) is matched narrowly. controller_MPI is covered by C08 only; ParaDiag controller tiling is not yet covered.'),
 'C09': dict(
  technique='property-based testing: generated restart/step-size scripts injected into the real restarting/limiter/spreading controllers, invariants with an independent retry counter; recomputation of the step-size formula on generated adaptive runs',
  text='Scripted histories (num_procs 1-4, max_restarts 0-5, crash/move-on, both restart modes, limiter settings, requests and raw proposals at arbitrary (attempt, slot)) are judged for kept steps, continuation at the restarted step, one dt per block, retry budget, ConvergenceError exactly when due, progress, and next dt = slope-then-absolute-limited proposal. '
       'Real adaptive runs (Adaptivity, AdaptivityRK on every embedded RK class, polynomial, extrapolation estimators; van der Pol, Lorenz, logistic, Dahlquist) are judged for the step-size formula, accepted-below-tolerance and smaller-retry clauses.',
  note='Tend clipping by the spreader is outside the statement: a smaller-than-predicted step is accepted only within one block of Tend. Polynomial-estimator order is a status variable, so only its acceptance/retry clauses are asserted. Runs are cost-bounded to 120 blocks. One defect (F15) found and fixed.'),
 'C01': dict(
  technique='property-based testing: Hypothesis-generated converged runs of the real controller (sweeper x preconditioner x nodes x levels x transfers x parallel steps x predictor x coupling x residual type) against a dense collocation solve with a rigorous a-posteriori bound',
  text='For every accepted step of every generated run the end value is compared with the fine collocation solution started from the step\'s actual start value; the admissible distance is kappa times the defect the level really holds (recomputed from node values), and for full_abs also 10*kappa*restol. '
       'The premise is verified too: a step that stopped by residual must hold a defect <= restol in the configured residual type. Runs that hit maxiter are discarded and counted.',
  note='Linear problems only (as the statement says). Relative residual types are generated with non-zero start values (the library divides by |u0|). Known finding F3 (zero-sweep finish at iteration 0) is matched by the iteration count of the failing step.'),
 'C10': dict(
  technique='property-based testing: generated level hierarchies/transfers/problems driven through the real controller stages; metamorphic fixed-point invariance and the algebraic defect identity recomputed independently',
  text='On a one-step controller with 2-3 levels the harness (1) iterates the fine level to its collocation solution, runs IT_DOWN/IT_COARSE/IT_UP through controller.pfasst and requires the fine values (and f) to stay put and every coarse level to sit on its own fixed point; '
       '(2) for arbitrary fine iterates checks right after each restriction that the coarse defect u0+dt*Q*F(U)+tau-U equals the restricted fine defect (incl. inherited tau on three levels). Linear (forced fixtures, heat, advection, FFT advection-diffusion IMEX) and nonlinear (van der Pol, logistic, periodic Allen-Cahn) problems.',
  note='The restricted defect is formed with the step\'s own transfer operators (their exactness is C11). Tolerance 1e-10*scale + 1e4*measured fine defect. The explicit multigrid-in-time iteration-matrix clause of the statement is not yet built (planned: dense two-level map).'),
 'C03': dict(
  technique='property-based testing: recorder hook recomputing the collocation defect at every callback of generated real runs; exhaustive and generated scripted residual tables for the stopping rule',
  text='Real runs (implicit, IMEX, IMEX-mass sweepers; 4 residual types; 1-2 levels; 1-4 parallel steps; restol reached at iteration 0,1,..,never): at each post_sweep/post_iteration/post_step the defect is recomputed from the node values held (f re-evaluated) and compared with status.residual and the logged stats; '
       'stopping soundness, iter <= maxiter, iter == callbacks == logged niter. Scripted residual tables: all {below,above}^(K+1) sequences for K<=3 (quick)/4 x 1-3 steps x coupling modes, all pairs across two consecutive blocks, generated long non-monotone multi-block tables.',
  note='At iteration 0 the identity is asserted only for the spread guess (copy/zero guesses store f(u0,t0)/0 by construction). Known finding F3b (zero-sweep finish at iteration 0, same root cause as F3); F9 (mass sweeper ignored residual_type) fixed.'),
 'C04': dict(
  technique='exhaustive enumeration of node sets x preconditioners x iteration counts (and of all Runge-Kutta classes by reflection) with a Taylor-coefficient oracle extracted from the real step function on a complex circle',
  text='One real controller step on the shipped test equations with 128 values z on a circle gives R(z); its Taylor coefficients (FFT) must equal 1/m! through min(k,p) for every node family x type x M (<=4 quick, <=7 thorough), implicit/explicit/IMEX preconditioner names, k up to p+2, both end-point modes; '
       'converged iterations must equal the collocation stability function pointwise; every RungeKutta/RungeKuttaIMEX class must reach its documented order (IMEX with 4 splittings) and primary-minus-embedded must vanish below get_update_order().',
  note='Only ">= order" is asserted. Coefficients whose rounding term exceeds 2% of 1/m! are counted as unresolved (affects m>=13 only). Radius 0.4 x smallest pole of the sweep. A new RK class without an entry in the order table is reported, not skipped.'),
 'C07': dict(
  technique='exhaustive enumeration of per-(step, iteration) convergence patterns within bounds (scripted-residual sweeper) x controller configurations, random patterns and force flags beyond; invariants after every pfasst() call and a regular-expression grammar over the callback stream',
  text='For each pattern the harness wraps the controller instance\'s pfasst/send_full/recv_full and checks after every stage call: one common stage of running steps, steps finish in time order, a finished step (u, f, uend on all levels, iter) never changes and is final when its end callback fires, '
       'every receive consumes the latest matching send (level, iteration, sender) exactly once, no protocol error, bounded number of stage calls; callbacks per step match S(pq)?(i(ab)+j)*E, all_to_done gives equal iteration counts, logged niter == callbacks.',
  note='Quick: all patterns for (P,K) in {(1,3),(2,2),(3,1),(2,3)} on one level and P*(K+1)<=6 on 2-3 levels; thorough up to (4,3)/(3,4). Liveness beyond the bounded call count is not claimed.'),
 'C15': dict(
  technique='exhaustive enumeration of (n_steps, alpha, M) for the dense matrix identities; property-based testing of the diagonalisation sweeper against dense solves and of converged ParaDiag runs against sequential dense collocation stepping',
  text='For n_steps 1..16 x 14 alphas x M 1..5: W*Winv = I (both orders), E_alpha as specified, W E_alpha Winv diagonal with the analytic eigenvalues, every get_G_inv_matrix factor inverts (d_l H + I), and (W(x)I)(E(x)H+I)(Winv(x)I) = blockdiag(G_l). '
       'One update_nodes() of QDiagonalization/IMEX solves (G(x)I - dt Q(x)A) y = r for G_inv = identity / a ParaDiag factor given at construction or via set_G_inv, with and without ignore_ic. Converged controller_ParaDiag_nonMPI runs equal sequential collocation within kappa*restol; implicit linear runs must converge.',
  note='alpha = 1: the l=0 factor is singular by mathematics and must be reported (exception or non-finite). Complex-valued dense fixtures and the shipped Dahlquist problem are used (the diagonalisation has complex eigenvalues, so real FD problems are outside what the sweeper can solve). IMEX runs that do not converge in 60 iterations are discarded and counted.'),
 'C14': dict(
  technique='property-based testing: synthetic statistics dictionaries against dictionary-comprehension/sorting references; generated restart histories with all shipped logging hooks against ground truth from an observer controller, a recorder hook and call-counting fixture problems',
  text='filter_stats/sort_stats/get_sorted/get_list_of_types on random Entry dictionaries (None fields, near-equal times, duplicates across num_restarts). Runs (1-4 steps/block, 1-2 levels, scripted restarts anywhere, repeated restarts, dt changes) with LogSolution, LogWork, LogRestarts, LogStepSize, LogSDCIterations: '
       'recomputed=False must leave exactly one record per accepted step and type at the true start/end time; niter == iteration callbacks; work counters == calls counted; logged dt/residual/solution equal the accepted attempt; first-slot restart counts; real-stats filters == comprehensions.',
  note='Known finding F6 is delimited by a reference filter on ideal records (every attempt keyed with its true restart count): only times where even ideal records cannot be filtered are attributed to it. LogSDCIterations accumulates over attempts sharing a key (increment semantics) and is only checked for presence. F5 (LogWork) fixed.'),
 'C12': dict(
  technique='property-based testing over a reflection-built registry of all importable problem classes: manufactured right-hand sides with a validity predicate, byte snapshots, sibling sums, Richardson-differentiated closed-form solutions',
  text='All 59 importable problem classes are discovered by reflection (an unregistered class is a failure). For each class/variant (solver types, boundary conditions, parameters) states are generated from the exact solution plus bounded perturbations; rhs = u* - factor*f_impl(u*,t) is solved from a perturbed guess for 2-3 factors per instance (0, 1e-9..1e2, near-equal pairs) '
       'and |u - factor*f_impl(u,t) - rhs| is judged against the configured tolerance; arguments must stay bit-identical; factor 0 returns rhs; spectral classes are judged on the linear system they state incl. boundary rows; split siblings sum to the unsplit right-hand side; 13 closed-form ODE solutions are differentiated numerically and compared with eval_f, and u_exact(0) with the configured u0.',
  note='Factor ranges are narrowed for Newton classes (<= 1e-1, Quench <= 10). Documented dummy solvers (ExactDiscontinuousTestODE, polynomial_testequation*) are judged on immutability only; Hamiltonian particle classes have no implicit solve. Known findings F11 (allencahn_front_semiimplicit) and F17 (advectiondiffusion1d_implicit at the Nyquist mode); F18, F19 fixed.'),
}
