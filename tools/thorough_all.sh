#!/bin/bash
# run registered thorough tiers against /repo (sequentially), append exit code and wall time to /dev/shm/thorough_all.log
# usage: tools/thorough_all.sh [01 02 ...]
cd /verif
log=/dev/shm/thorough_all.log
ids=${@:-01 02 03 04 05 06 07 08 09 10 11 12 13 14 15 16 17 18 19 20}
for i in $ids; do
  t0=$(date +%s)
  ./check C$i thorough > /dev/shm/thorough_C$i.out 2>&1
  rc=$?
  t1=$(date +%s)
  echo "C$i exit=$rc wall=$((t1-t0))s $(grep -c '^VIOLATION' /dev/shm/thorough_C$i.out) violations" >> $log
done
echo DONE >> $log
