"""C10 - coarse levels never change the fine fixed point (FAS consistency).

Driven through the real controller stages (restart_block, SPREAD, PREDICT, then IT_DOWN / IT_COARSE / IT_UP via
controller.pfasst) on a one-step controller with 2-3 levels.
 (1) fixed-point clause: the fine level is iterated to its collocation solution (defect recomputed independently by the
     harness), then a complete down-up cycle must leave the fine node values unchanged up to kappa*defect + rounding.
 (2) defect identity, for arbitrary fine iterates: right after restriction the coarse defect
     u0_c + dt Q_c F_c(U_c) + tau_c - U_c equals R_nodes (x) R_space applied to the fine defect (incl. inherited tau).
 (3) linear problems: one full multilevel iteration equals the reference two-/three-grid map built from dense matrices.
"""

import numpy as np
from hypothesis import strategies as st

from vlib.runner import Clause
from vlib import strats as S
from vlib import runs as R
from vlib import fixtures as F

from pySDC.core.errors import ProblemError
from pySDC.implementations.sweeper_classes.generic_implicit import generic_implicit
from pySDC.implementations.sweeper_classes.imex_1st_order import imex_1st_order
from pySDC.implementations.problem_classes.HeatEquation_ND_FD import heatNd_unforced
from pySDC.implementations.problem_classes.AdvectionEquation_ND_FD import advectionNd
from pySDC.implementations.problem_classes.AdvectionDiffusionEquation_1D_FFT import advectiondiffusion1d_imex
from pySDC.implementations.problem_classes.AllenCahn_1D_FD import allencahn_periodic_fullyimplicit
from pySDC.implementations.problem_classes.Van_der_Pol_implicit import vanderpol
from pySDC.implementations.problem_classes.LogisticEquation import logistics_equation
from pySDC.implementations.transfer_classes.TransferMesh import mesh_to_mesh
from pySDC.implementations.transfer_classes.TransferMesh_FFT import mesh_to_mesh_fft
from pySDC.implementations.transfer_classes.TransferMesh_NoCoarse import mesh_to_mesh as nocoarse

PROPERTY = 'C10'
LEVEL = 'exploration'
RULE = (
    'Hypothesis draws 2-3 levels, node-set pairs/triples (equal or different counts, all families/types), space transfer '
    '(Lagrange orders 2-8 on periodic/Dirichlet FD grids, FFT, identity), finter on/off, linear (dense fixtures with forcing, heat, advection, '
    'advection-diffusion FFT/IMEX) and nonlinear (van der Pol, logistic, periodic Allen-Cahn) problems, dt, coarse preconditioners and middle-level sweeps. '
    'The iteration-map clause draws the linear generic_implicit subset (dense fixtures, heat, advection). Non-trivial = node counts differ or space is coarsened; three-level cases (inherited fine tau) are reported as a class; distinct = configuration tuple.'
)
ASSUMPTIONS = [
    'the restricted fine defect is formed with the transfer operators of the step (Rcoll, space_transfer.restrict): the clause is about consistency of tau, not about the operators (C11)',
    'fine collocation solution obtained by iterating the fine sweeper; its defect is re-measured independently and enters the tolerance',
]


def _np(x):
    return np.array(x, dtype=float)


def build_desc(case):
    L = case['levels']
    pk = case['problem']
    desc = {}
    nn = case['num_nodes']
    sp = {'num_nodes': nn, 'quad_type': case['quad_type'], 'node_type': case['node_type'], 'QI': case['QI']}
    sweeper = generic_implicit
    if pk == 'linvec':
        pc, pp = F.LinVec, {'A': _np(case['A']), 'g': case['g']}
        desc['space_transfer_class'] = nocoarse
    elif pk == 'linimex':
        pc, pp = F.LinVecIMEX, {'AI': _np(case['A']), 'AE': _np(case['A2']), 'gI': case['g'], 'gE': case['g2']}
        sweeper = imex_1st_order
        sp['QE'] = 'EE'
        desc['space_transfer_class'] = nocoarse
    elif pk in ('heat', 'advection'):
        nv = case['nvars']
        if pk == 'heat':
            pc, pp = heatNd_unforced, {'nvars': nv, 'nu': case['coeff'], 'freq': 2, 'bc': case['bc'], 'order': 2}
        else:
            pc, pp = advectionNd, {'nvars': nv, 'c': case['coeff'], 'freq': 2, 'bc': 'periodic', 'order': 2}
        desc['space_transfer_class'] = mesh_to_mesh
        desc['space_transfer_params'] = {'rorder': case['rorder'], 'iorder': case['iorder'], 'periodic': case['bc'] == 'periodic', 'equidist_nested': case['nested']}
    elif pk == 'advdiff_fft':
        pc, pp = advectiondiffusion1d_imex, {'nvars': case['nvars'], 'c': case['coeff'], 'freq': 2, 'nu': 0.02}
        sweeper = imex_1st_order
        sp['QE'] = 'EE'
        desc['space_transfer_class'] = mesh_to_mesh_fft
    elif pk == 'allencahn':
        pc, pp = allencahn_periodic_fullyimplicit, {'nvars': case['nvars'], 'dw': -0.04, 'eps': 0.2, 'newton_maxiter': 100, 'newton_tol': 1e-13, 'radius': 0.25}
        desc['space_transfer_class'] = mesh_to_mesh
        desc['space_transfer_params'] = {'rorder': case['rorder'], 'iorder': case['iorder'], 'periodic': True, 'equidist_nested': case['nested']}
    elif pk == 'vdp':
        pc, pp = vanderpol, {'mu': case['mu'], 'u0': np.array([2.0, 0.0]), 'newton_tol': 1e-13, 'newton_maxiter': 100}
        desc['space_transfer_class'] = nocoarse
    elif pk == 'logistic':
        pc, pp = logistics_equation, {'u0': 0.3, 'lam': 2.0, 'newton_tol': 1e-13}
        desc['space_transfer_class'] = nocoarse
    desc.update(
        {
            'problem_class': pc, 'problem_params': pp, 'sweeper_class': sweeper, 'sweeper_params': sp,
            'level_params': {'dt': case['dt'], 'restol': -1.0, 'nsweeps': case['nsweeps']}, 'step_params': {'maxiter': 5},
            'base_transfer_params': {'finter': case['finter']},
        }
    )  # fmt: skip
    return desc


def start_step(case):
    """controller with one step, driven to the IT_CHECK stage (levels unlocked, spread initial guess)"""
    desc = build_desc(case)
    ctrl = R.make_controller(1, desc, predict_type=None)
    S = ctrl.MS[0]
    P = S.levels[0].prob
    u0 = P.dtype_u(P.init)
    if case['problem'] in ('vdp', 'logistic', 'allencahn'):
        u0[:] = P.u_exact(0.0)
        if case['problem'] == 'allencahn':
            u0[:] = np.clip(np.asarray(u0) + 0.05 * np.resize(_np(case['u0']), u0.shape), -0.2, 1.2)
    else:
        u0[:] = np.resize(_np(case['u0']), u0.shape)
    ctrl.restart_block([0], [case['t0']], u0)
    guard = 0
    while S.status.stage != 'IT_CHECK':
        ctrl.pfasst([S])
        guard += 1
        if guard > 5:
            raise RuntimeError('controller did not reach IT_CHECK')
    return ctrl, S


def eval_all(L):
    """harness-side f evaluation at the level's nodes from the node values it holds"""
    P = L.prob
    nodes = L.sweep.coll.nodes
    return [P.eval_f(L.u[0], L.time)] + [P.eval_f(L.u[m], L.time + L.dt * nodes[m - 1]) for m in range(1, len(nodes) + 1)]


def full(f):
    a = np.asarray(f)
    return a.sum(axis=0) if hasattr(type(f), 'components') else a


def defect(L):
    """u0 + dt*Q*F(U) + tau - U on every node, F re-evaluated by the harness"""
    M = L.sweep.coll.num_nodes
    Q = np.asarray(L.sweep.coll.Qmat, float)
    Fv = eval_all(L)
    out = []
    for m in range(1, M + 1):
        d = np.asarray(L.u[0]).astype(complex if np.iscomplexobj(np.asarray(L.u[0])) else float).copy()
        for j in range(1, M + 1):
            d = d + L.dt * Q[m, j] * full(Fv[j])
        if L.tau[m - 1] is not None:
            d = d + np.asarray(L.tau[m - 1])
        d = d - np.asarray(L.u[m])
        out.append(d)
    return out


def set_fine_values(L, vals):
    P = L.prob
    M = L.sweep.coll.num_nodes
    nodes = L.sweep.coll.nodes
    for m in range(1, M + 1):
        u = P.dtype_u(P.init)
        u[:] = vals[m - 1].reshape(u.shape)
        L.u[m] = u
        L.f[m] = P.eval_f(u, L.time + L.dt * nodes[m - 1])


def labels(case, r):
    r.label(case['problem'], f'levels{case["levels"]}', case['quad_type'], 'finter' if case['finter'] else 'values-only')
    nn = case['num_nodes']
    nv = case.get('nvars')
    differs = len(set(nn)) > 1 or (isinstance(nv, list) and len(set(nv)) > 1)
    if differs:
        r.nontrivial([case['problem'], nn, nv, case['node_type'], case['quad_type'], case['finter'], case['QI'], case.get('iorder'), case.get('rorder'), case['nsweeps']])
    if case['levels'] == 3:
        r.label('inherited-tau')


# ----------------------------------------------------------------------------------------- (2) defect identity
def prop_defect(case, r):
    try:
        return _prop_defect(case, r)
    except ProblemError as e:
        # the nonlinear solver of the problem class left its basin for the generated state (e.g. Allen-Cahn Newton: nan): not a statement about FAS
        r.discard(f'problem solver failed: {str(e)[:60]}')


def _prop_defect(case, r):
    labels(case, r)
    ctrl, S = start_step(case)
    L0 = S.levels[0]
    P0 = L0.prob
    M0 = L0.sweep.coll.num_nodes
    # arbitrary fine iterate (for nonlinear problems: a perturbation of the spread state, to stay admissible)
    base = np.asarray(L0.u[0]).ravel()
    rnd = np.resize(_np(case['iterate']), (M0, base.size))
    amp = 0.05 if case['problem'] in ('vdp', 'logistic', 'allencahn') else 1.0
    set_fine_values(L0, [base + amp * rnd[m] for m in range(M0)])
    for l in range(len(S.levels) - 1):
        Lf, Lc = S.levels[l], S.levels[l + 1]
        S.transfer(source=Lf, target=Lc)
        bt_R = None
        # the step keeps one base_transfer per level pair only as closures: rebuild the operators from a fresh pair
        from pySDC.core.base_transfer import BaseTransfer

        bt = BaseTransfer(Lf, Lc, {'finter': case['finter']}, S.base_transfer.space_transfer.__class__, dict(build_desc(case).get('space_transfer_params', {})))
        df = defect(Lf)
        dc = defect(Lc)
        Rn = np.asarray(bt.Rcoll, float)
        rest = [bt.space_transfer.restrict(_as(Lf, d)) for d in df]
        scale = max(1.0, max(np.abs(np.asarray(x)).max() for x in Lf.u), max(np.abs(np.asarray(x)).max() for x in Lc.u if x is not None))
        worst = 0.0
        for n in range(Lc.sweep.coll.num_nodes):
            exp = sum(Rn[n, m] * np.asarray(rest[m]) for m in range(Lf.sweep.coll.num_nodes))
            worst = max(worst, np.abs(np.asarray(dc[n]) - exp).max())
        opn = 1.0 + Lc.dt * np.abs(np.asarray(Lc.sweep.coll.Qmat)).sum(axis=1).max() * max(1.0, max(np.abs(full(f)).max() for f in eval_all(Lc)) / scale)
        r.close(worst, 1e-11 * scale * opn * max(1.0, np.abs(Rn).sum(axis=1).max()), 'coarse-defect=restricted-fine-defect', lambda: f'levels {l}->{l + 1} {case["problem"]} nodes {case["num_nodes"]} {case["quad_type"]}')
        # coarse start value is the restricted fine start value; uold/fold snapshots taken
        r.close(np.abs(np.asarray(Lc.u[0]) - np.asarray(bt.space_transfer.restrict(Lf.u[0]))).max(), 1e-13 * scale, 'coarse-u0')
        for m in range(1, Lc.sweep.coll.num_nodes + 1):
            r.check(np.array_equal(np.asarray(Lc.uold[m]), np.asarray(Lc.u[m])) and Lc.uold[m] is not Lc.u[m], 'uold-snapshot', f'node {m}')
        # to go one level further the middle level may be swept first (as the controller does)
        if l + 2 < len(S.levels):
            for _ in range(case['nsweeps'][l + 1]):
                Lc.sweep.update_nodes()


def _as(L, arr):
    u = L.prob.dtype_u(L.prob.init)
    u[:] = np.asarray(arr).reshape(u.shape)
    return u


# ----------------------------------------------------------------------------------------- (1) fixed point
def prop_fixed_point(case, r):
    try:
        return _prop_fixed_point(case, r)
    except ProblemError as e:
        # the nonlinear solver of the problem class left its basin for the generated state (e.g. Allen-Cahn Newton: nan): not a statement about FAS
        r.discard(f'problem solver failed: {str(e)[:60]}')


def _prop_fixed_point(case, r):
    labels(case, r)
    ctrl, S = start_step(case)
    L0 = S.levels[0]
    # iterate the fine level to its collocation solution
    for k in range(400):
        L0.sweep.update_nodes()
        d = defect(L0)
        dn = max(np.abs(x).max() for x in d)
        scale = max(1.0, max(np.abs(np.asarray(x)).max() for x in L0.u))
        if dn <= 2e-14 * scale * (1 + L0.dt * max(np.abs(full(f)).max() for f in eval_all(L0)) / scale):
            break
    else:
        if not np.isfinite(dn) or dn > 1e-11 * scale:
            r.discard('fine sweeper did not reach the collocation solution in 400 sweeps')
            return
    before = [np.array(x, copy=True) for x in L0.u]
    fbefore = [np.array(x, copy=True) for x in L0.f]
    S.status.iter = 1
    S.status.stage = 'IT_DOWN'
    guard = 0
    while S.status.stage != 'IT_FINE':
        ctrl.pfasst([S])
        guard += 1
        if guard > 6:
            r.fail('cycle-stages', f'stage {S.status.stage} after {guard} calls')
            return
    change = max(np.abs(np.asarray(a) - b).max() for a, b in zip(L0.u, before))
    fchange = max(np.abs(np.asarray(a) - b).max() for a, b in zip(L0.f, fbefore))
    fscale = max(1.0, max(np.abs(b).max() for b in fbefore))
    # coarse corrections are (I - dt QD A_c)^{-1} applied to restricted defects: amplification bounded generously
    tol = 1e-10 * scale + 1e4 * dn
    r.close(change, tol, 'fixed-point-moved', lambda: f'{case["problem"]} nodes {case["num_nodes"]} {case["quad_type"]} finter={case["finter"]}: fine values moved by {change:.3e} (fine defect {dn:.1e})')
    r.close(fchange, 1e-9 * fscale + 1e5 * dn * max(1.0, fscale / scale), 'fixed-point-f-moved', lambda: f'f values moved by {fchange:.3e}')
    # the coarse levels hold their own fixed points: defect of every coarse level stays ~ 0 after its sweep
    for l in range(1, len(S.levels)):
        dc = max(np.abs(x).max() for x in defect(S.levels[l]))
        r.close(dc, 1e-10 * scale + 1e4 * dn, 'coarse-fixed-point', lambda: f'level {l} defect {dc:.3e} after the cycle')


# ----------------------------------------------------------------------------------------- (3) multigrid-in-time iteration map
def _space_ops(bt, Lf, Lc):
    """dense spatial prolongation / restriction matrices, obtained by applying the (linear) operators to unit vectors"""
    nf, nc = int(np.prod(Lf.prob.init[0])), int(np.prod(Lc.prob.init[0]))
    P = np.zeros((nf, nc))
    Rm = np.zeros((nc, nf))
    for j in range(nc):
        e = np.zeros(nc)
        e[j] = 1.0
        P[:, j] = np.asarray(bt.space_transfer.prolong(_as(Lc, e))).ravel()
    for j in range(nf):
        e = np.zeros(nf)
        e[j] = 1.0
        Rm[:, j] = np.asarray(bt.space_transfer.restrict(_as(Lf, e))).ravel()
    return P, Rm


def _op_matrix(L):
    P = L.prob
    if hasattr(P, 'Amat'):
        return np.asarray(P.Amat, float)
    return np.asarray(P.A.toarray(), float)


def _forcing(L):
    """node forcing G (M x n) of the linear right-hand side f(u, t) = A u + g(t); g = f(0, t)"""
    P = L.prob
    nodes = L.sweep.coll.nodes
    z = P.dtype_u(P.init, val=0.0)
    return np.array([np.asarray(P.eval_f(z, L.time + L.dt * nodes[m])).ravel() for m in range(len(nodes))])


def prop_iteration(case, r):
    """one complete multilevel iteration (IT_DOWN, IT_COARSE, IT_UP, IT_FINE) of the real controller on an arbitrary fine iterate equals
    the explicit multigrid-in-time map assembled from dense Q, QDelta, A, Pcoll/Rcoll and the spatial transfer matrices of every level"""
    from pySDC.core.base_transfer import BaseTransfer

    labels(case, r)
    ctrl, S = start_step(case)
    nl = len(S.levels)
    L0 = S.levels[0]
    M0 = L0.sweep.coll.num_nodes
    base = np.asarray(L0.u[0]).ravel()
    rnd = np.resize(_np(case['iterate']), (M0, base.size))
    set_fine_values(L0, [base + rnd[m] for m in range(M0)])
    # dense ingredients per level
    A = [_op_matrix(L) for L in S.levels]
    G = [_forcing(L) for L in S.levels]
    Q = [np.asarray(L.sweep.coll.Qmat, float)[1:, 1:] for L in S.levels]
    QD = [np.asarray(L.sweep.QI, float)[1:, 1:] for L in S.levels]
    dt = L0.dt
    bts = [BaseTransfer(S.levels[l], S.levels[l + 1], {'finter': case['finter']}, S.base_transfer.space_transfer.__class__, dict(build_desc(case).get('space_transfer_params', {}))) for l in range(nl - 1)]
    ops = [_space_ops(bts[l], S.levels[l], S.levels[l + 1]) for l in range(nl - 1)]
    Pc = [np.asarray(b.Pcoll, float) for b in bts]
    Rc = [np.asarray(b.Rcoll, float) for b in bts]
    # reference state: U (M x n), F (M x n, stored right-hand sides), u0, tau per level
    U = [None] * nl
    Fs = [None] * nl
    u0 = [None] * nl
    tau = [None] * nl
    Uold = [None] * nl
    Fold = [None] * nl
    U[0] = np.array([np.asarray(L0.u[m]).ravel() for m in range(1, M0 + 1)])
    Fs[0] = np.array([np.asarray(L0.f[m]).ravel() for m in range(1, M0 + 1)])
    u0[0] = base.copy()
    kap = 1.0

    def feval(l, Ul):
        return Ul @ A[l].T + G[l]

    def sweep(l):
        nonlocal kap
        Ml, n = U[l].shape
        rhs = np.tile(u0[l], (Ml, 1)) + dt * (Q[l] - QD[l]) @ Fs[l] + dt * QD[l] @ G[l]
        if tau[l] is not None:
            rhs = rhs + tau[l]
        Sys = np.eye(Ml * n) - dt * np.kron(QD[l], A[l])
        kap = max(kap, np.linalg.cond(Sys))
        U[l] = np.linalg.solve(Sys, rhs.reshape(-1)).reshape(Ml, n)
        Fs[l] = feval(l, U[l])

    def restrict(l):
        P_, R_ = ops[l]
        U[l + 1] = Rc[l] @ U[l] @ R_.T
        u0[l + 1] = R_ @ u0[l]
        Fs[l + 1] = feval(l + 1, U[l + 1])
        tauF = dt * Q[l] @ Fs[l]
        tauG = dt * Q[l + 1] @ Fs[l + 1]
        tau[l + 1] = Rc[l] @ tauF @ R_.T - tauG
        if tau[l] is not None:
            tau[l + 1] = tau[l + 1] + Rc[l] @ tau[l] @ R_.T
        Uold[l + 1] = U[l + 1].copy()
        Fold[l + 1] = Fs[l + 1].copy()

    def prolong(l):
        P_, R_ = ops[l]
        U[l] = U[l] + Pc[l] @ (U[l + 1] - Uold[l + 1]) @ P_.T
        if case['finter']:
            Fs[l] = Fs[l] + Pc[l] @ (Fs[l + 1] - Fold[l + 1]) @ P_.T
        else:
            Fs[l] = feval(l, U[l])

    nsw = case['nsweeps']
    restrict(0)
    for l in range(1, nl - 1):
        for _ in range(nsw[l]):
            sweep(l)
        restrict(l)
    sweep(nl - 1)
    for l in range(nl - 1, 0, -1):
        prolong(l - 1)
        if l - 1 > 0:
            for _ in range(nsw[l - 1]):
                sweep(l - 1)
    for _ in range(nsw[0]):
        sweep(0)

    # the real controller
    S.status.iter = 1
    S.status.stage = 'IT_DOWN'
    guard = 0
    while S.status.stage != 'IT_CHECK':
        ctrl.pfasst([S])
        guard += 1
        if guard > 8:
            r.fail('cycle-stages', f'stage {S.status.stage} after {guard} calls')
            return
    if kap > 1e7:
        r.discard('ill-conditioned node system')
        return
    scale = max(1.0, max(np.abs(x).max() for x in U))
    for l in range(nl):
        L = S.levels[l]
        got = np.array([np.asarray(L.u[m]).ravel() for m in range(1, L.sweep.coll.num_nodes + 1)])
        r.close(np.abs(got - U[l]).max(), 1e-10 * kap * scale, 'iteration-map-values', lambda: f'level {l}: {case["problem"]} nodes {case["num_nodes"]} {case["quad_type"]} finter={case["finter"]} QI={case["QI"]} nsweeps={nsw}')
    gotf = np.array([np.asarray(L0.f[m]).ravel() for m in range(1, M0 + 1)])
    fscale = max(1.0, np.abs(Fs[0]).max())
    r.close(np.abs(gotf - Fs[0]).max(), 1e-10 * kap * max(scale * np.abs(A[0]).sum(axis=1).max(), fscale), 'iteration-map-f')


@st.composite
def linear_cases(draw):
    case = draw(cases(nonlinear=False).filter(lambda c: c['problem'] in ('linvec', 'heat', 'advection')))
    return case


# ----------------------------------------------------------------------------------------- strategies
@st.composite
def cases(draw, nonlinear=True):
    levels = draw(st.sampled_from([2, 2, 3]))
    probs = ['linvec', 'linvec', 'linimex', 'heat', 'advection', 'advdiff_fft'] + (['vdp', 'logistic', 'allencahn'] if nonlinear else [])
    pk = draw(st.sampled_from(probs))
    ns = draw(S.node_sets(max_nodes=5))
    lo = 2 if ns['quad_type'] in ('LOBATTO', 'RADAU-LEFT') else 1
    nn = [max(ns['num_nodes'], 2)]
    for _ in range(levels - 1):
        nn.append(draw(st.integers(lo, nn[-1])))
    case = {
        'levels': levels, 'problem': pk, 'node_type': ns['node_type'], 'quad_type': ns['quad_type'], 'num_nodes': nn,
        'QI': draw(st.sampled_from(['IE', 'LU', 'MIN-SR-S', 'TRAP'])), 'finter': draw(st.booleans()), 't0': draw(S.small_float(-1, 2)),
        'nsweeps': [1] + [draw(st.integers(1, 2)) for _ in range(levels - 2)] + [1],
        'iterate': draw(st.lists(S.small_float(-1, 1), min_size=4, max_size=24)),
    }  # fmt: skip
    if pk in ('linvec', 'linimex'):
        n = draw(st.integers(1, 3))
        case['A'] = S.shape_matrix(draw(S.mat(n)), 'stable')
        case['A2'] = S.shape_matrix(draw(S.mat(n)), 'rot', scale=0.3)
        case['g'] = draw(S.forcing(n, p_on=0.7))
        case['g2'] = draw(S.forcing(n, p_on=0.5))
        case['u0'] = draw(S.vec(n))
        case['dt'] = draw(st.sampled_from([0.05, 0.1, 0.3]))
    elif pk in ('heat', 'advection', 'allencahn'):
        periodic = pk != 'heat' or draw(st.booleans())
        case['bc'] = 'periodic' if periodic else 'dirichlet-zero'
        kf = draw(st.integers(3, 4))
        nv = [2**kf if periodic else 2**kf - 1]
        for _ in range(levels - 1):
            coarsen = draw(st.booleans()) and nv[-1] >= 7
            nv.append((nv[-1] // 2 if periodic else (nv[-1] + 1) // 2 - 1) if coarsen else nv[-1])
        case['nvars'] = nv
        ncmin = min(nv)
        fits = [p for p in (2, 4, 6, 8) if (ncmin > p if periodic else ncmin + 2 >= p)] or [2]
        case['iorder'] = draw(st.sampled_from(fits))
        case['rorder'] = draw(st.sampled_from(fits))
        case['nested'] = draw(st.booleans())
        case['coeff'] = draw(st.sampled_from([0.05, 0.1])) if pk == 'heat' else draw(st.sampled_from([0.5, 1.0]))
        case['u0'] = draw(S.vec(nv[0]))
        case['dt'] = draw(st.sampled_from([0.01, 0.02])) if pk != 'allencahn' else draw(st.sampled_from([0.002, 0.005]))
    elif pk == 'advdiff_fft':
        nv = [16]
        for _ in range(levels - 1):
            nv.append(nv[-1] // 2 if draw(st.booleans()) and nv[-1] > 4 else nv[-1])
        case['nvars'] = nv
        case['coeff'] = draw(st.sampled_from([0.5, 1.0]))
        case['u0'] = draw(S.vec(16))
        case['dt'] = draw(st.sampled_from([0.01, 0.02]))
    else:
        case['mu'] = draw(st.sampled_from([0.5, 2.0, 5.0]))
        case['u0'] = [0.0]
        case['dt'] = draw(st.sampled_from([0.02, 0.05, 0.1]))
    return case


def known_match(fid, clause, case, failure):
    return False


def clauses(tier):
    return [
        Clause('defect-identity', prop_defect, strategy=cases(), examples={'quick': 500, 'thorough': 12000}),
        Clause('fixed-point', prop_fixed_point, strategy=cases(), examples={'quick': 350, 'thorough': 8000}),
        Clause('iteration-map', prop_iteration, strategy=linear_cases(), examples={'quick': 350, 'thorough': 8000}),
    ]
