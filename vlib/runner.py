"""Shared runner: sharded Hypothesis / exhaustive enumeration, failure bucketing, known findings,
bounded shrinking, replay files, evidence.

A check module (checks/cNN.py) defines

    PROPERTY = 'C05'
    LEVEL    = 'exploration' | 'fault_enumeration'
    RULE     = '...'                      # generator + non-triviality rule (text, goes to evidence)
    ASSUMPTIONS = [...]
    def clauses(tier): -> list[Clause]
    def known_match(finding_id, clause_name, case, failure) -> bool     (optional)

A Clause has either a Hypothesis strategy (cases are JSON-able dicts) or an `enumerate` callable
returning a finite list of cases (exhaustive part).  `prop(case, r)` judges one case and reports through
the Recorder `r`; it never asserts.
"""

import hashlib
import json
import multiprocessing as mp
import os
import sys
import time
import traceback

HERE = os.path.dirname(os.path.dirname(os.path.abspath(__file__)))
NPROC = int(os.environ.get('VERIF_NPROC', '16'))
OUT = os.path.abspath(os.environ.get('VERIF_OUT', HERE))  # evidence/replays of scratch (mutant) runs go elsewhere


def repo_root():
    return os.path.abspath(os.environ.get('VERIF_REPO_ROOT', '/repo'))


def bind_repo():
    """Make `import pySDC` resolve to the working tree under test and verify it."""
    root = repo_root()
    if root in sys.path:
        sys.path.remove(root)
    sys.path.insert(0, root)
    import pySDC

    f = os.path.abspath(pySDC.__file__)
    if not f.startswith(root + os.sep):
        raise HarnessError(f'pySDC imported from {f}, expected under {root}')
    import logging
    import warnings

    logging.disable(logging.CRITICAL)
    warnings.filterwarnings('ignore')


class HarnessError(Exception):
    pass


def derive_seed(*parts):
    h = hashlib.sha256('|'.join(str(p) for p in parts).encode()).digest()
    return int.from_bytes(h[:6], 'big')


def case_key(obj):
    return hashlib.sha1(json.dumps(obj, sort_keys=True, default=str).encode()).hexdigest()[:16]


class Clause:
    def __init__(self, name, prop, strategy=None, enumerate=None, examples=None, max_shards=NPROC, exhaustive=False):
        self.name = name
        self.prop = prop
        self.strategy = strategy
        self.enumerate = enumerate
        self.examples = examples or {'quick': 200, 'thorough': 2000}
        self.max_shards = max_shards
        self.exhaustive = exhaustive


class Recorder:
    """Per-case verdict collector handed to the property function."""

    def __init__(self):
        self.failures = []  # (tag, message)
        self.labels = []
        self.nontrivial_key = None
        self.margins = {}
        self.discarded = None

    def fail(self, tag, msg=''):
        self.failures.append((str(tag), str(msg)[:600]))

    def check(self, cond, tag, msg=''):
        if not cond:
            self.fail(tag, msg() if callable(msg) else msg)
        return bool(cond)

    def close(self, err, tol, tag, msg=''):
        """err <= tol with margin bookkeeping (NaN counts as failure)."""
        err = float(err)
        tol = float(tol)
        ok = err <= tol
        ratio = err / tol if tol > 0 else (0.0 if err == 0 else float('inf'))
        if ratio == ratio:
            self.margins[tag] = max(self.margins.get(tag, 0.0), ratio)
        if not ok:
            self.fail(tag, f'{msg() if callable(msg) else msg} err={err:.3e} tol={tol:.3e}')
        return ok

    def label(self, *labels):
        self.labels.extend(str(l) for l in labels)

    def nontrivial(self, key):
        self.nontrivial_key = case_key(key)

    def discard(self, reason):
        self.discarded = str(reason)


def _exc_tag(e):
    """exception bucket: type + innermost frame inside the repository (or innermost frame)."""
    tb = traceback.extract_tb(e.__traceback__)
    root = repo_root()
    where = None
    for fr in tb:
        if fr.filename.startswith(root):
            where = f'{os.path.relpath(fr.filename, root)}:{fr.name}'
    if where is None and tb:
        where = f'{os.path.basename(tb[-1].filename)}:{tb[-1].name}'
    return f'exception:{type(e).__name__}@{where}'


def judge(mod, clause, case):
    """Run the property on one case. Returns (recorder, unknown_failures, known_hits)."""
    r = Recorder()
    try:
        clause.prop(case, r)
    except HarnessError:
        raise
    except Exception as e:  # an exception escaping the property function is a verdict, not a crash
        r.fail(_exc_tag(e), ''.join(traceback.format_exception_only(type(e), e)).strip()[:400])
    unknown, known = [], []
    findings = load_known(mod.PROPERTY)
    matcher = getattr(mod, 'known_match', None)
    for tag, msg in r.failures:
        hit = None
        if matcher is not None:
            for f in findings:
                try:
                    if matcher(f['id'], clause.name, case, (tag, msg)):
                        hit = f['id']
                        break
                except Exception:
                    hit = None
        if hit:
            known.append((hit, tag, msg))
        else:
            unknown.append((tag, msg))
    return r, unknown, known


_KNOWN_CACHE = None


def load_known(prop=None):
    global _KNOWN_CACHE
    if _KNOWN_CACHE is None:
        p = os.path.join(HERE, 'known_findings.json')
        if os.path.exists(p):
            with open(p) as fh:
                data = json.load(fh)
        else:
            data = {'findings': []}
        _KNOWN_CACHE = [f for f in data.get('findings', []) if f.get('status') == 'known']
    return [f for f in _KNOWN_CACHE if prop is None or f['property'] == prop]


class _Stats:
    def __init__(self):
        self.evaluations = 0
        self.nontrivial = set()
        self.labels = {}
        self.samples = []
        self.margins = {}
        self.discards = {}
        self.known = {}
        self.failures = []  # dicts: tag,msg,case
        self.errors = []

    def add(self, case, r, unknown, known, keep_samples=3):
        self.evaluations += 1
        if r.discarded:
            self.discards[r.discarded] = self.discards.get(r.discarded, 0) + 1
        for l in set(r.labels):
            self.labels[l] = self.labels.get(l, 0) + 1
        if r.nontrivial_key and not r.discarded:
            new = r.nontrivial_key not in self.nontrivial
            self.nontrivial.add(r.nontrivial_key)
            if new and len(self.samples) < keep_samples:
                self.samples.append(case)
        if not unknown and not known:  # margins describe passing cases only
            for k, v in r.margins.items():
                self.margins[k] = max(self.margins.get(k, 0.0), v)
        for fid, tag, msg in known:
            d = self.known.setdefault(fid, {'count': 0, 'example': None})
            d['count'] += 1
            if d['example'] is None:
                d['example'] = {'tag': tag, 'msg': msg, 'case': case}

    def as_dict(self):
        return dict(
            evaluations=self.evaluations,
            nontrivial=sorted(self.nontrivial),
            labels=self.labels,
            samples=self.samples,
            margins=self.margins,
            discards=self.discards,
            known=self.known,
            failures=self.failures,
            errors=self.errors,
        )


def _run_shard(args):
    """Worker: one shard of one clause."""
    modname, tier, cidx, shard, nshards, seed0, shrink_budget = args
    import importlib

    try:
        bind_repo()
        mod = importlib.import_module(modname)
        clause = mod.clauses(tier)[cidx]
        st = _Stats()
        if clause.enumerate is not None:
            cases = clause.enumerate(tier)
            for i, case in enumerate(cases):
                if i % nshards != shard:
                    continue
                r, unknown, known = judge(mod, clause, case)
                st.add(case, r, unknown, known)
                if unknown:
                    tags = {f['tag'] for f in st.failures}
                    if unknown[0][0] not in tags and len(st.failures) < 5:
                        st.failures.append({'tag': unknown[0][0], 'msg': unknown[0][1], 'case': case})
            return cidx, st.as_dict()

        from hypothesis import given, settings, seed, HealthCheck, Phase

        n = clause.examples[tier]
        per = max(1, -(-n // nshards))
        state = {'first_fail_t': None, 'failed_keys': {}, 'best': None}

        def test(case):
            key = case_key(case)
            if state['first_fail_t'] is not None:
                # shrinking: bounded by wall budget; afterwards only already-known failures keep failing
                if time.time() - state['first_fail_t'] > shrink_budget:
                    if key in state['failed_keys']:
                        raise AssertionError(state['failed_keys'][key])
                    return
            r, unknown, known = judge(mod, clause, case)
            if state['first_fail_t'] is None:
                st.add(case, r, unknown, known)
            if unknown:
                if state['first_fail_t'] is None:
                    state['first_fail_t'] = time.time()
                    state['tag'] = unknown[0][0]
                # shrink only within the same bucket
                same = [u for u in unknown if u[0] == state['tag']]
                if same:
                    state['failed_keys'][key] = same[0][0]
                    state['best'] = {'tag': same[0][0], 'msg': same[0][1], 'case': case}
                    raise AssertionError(same[0][0])

        s = settings(
            max_examples=per,
            database=None,
            deadline=None,
            report_multiple_bugs=False,
            derandomize=False,
            suppress_health_check=list(HealthCheck),
            phases=[Phase.generate, Phase.shrink],
            print_blob=False,
        )
        wrapped = seed(derive_seed(seed0, modname, clause.name, shard))(s(given(clause.strategy)(test)))
        try:
            wrapped()
        except AssertionError:
            pass
        except Exception as e:
            if state['best'] is None:
                raise
        if state['best'] is not None:
            st.failures.append(state['best'])
        return cidx, st.as_dict()
    except BaseException as e:  # harness error: reported as such, never as a violation
        st = _Stats()
        st.errors.append(''.join(traceback.format_exception(type(e), e, e.__traceback__))[-3000:])
        return cidx, st.as_dict()


def write_replay(prop, clause_name, failure):
    d = os.path.join(OUT, 'replays', prop)
    os.makedirs(d, exist_ok=True)
    body = {'property': prop, 'clause': clause_name, 'tag': failure['tag'], 'msg': failure['msg'], 'case': failure['case']}
    name = case_key([clause_name, failure['case']]) + '.json'
    path = os.path.join(d, name)
    with open(path, 'w') as fh:
        json.dump(body, fh, indent=1, sort_keys=True, default=str)
    return os.path.relpath(path, HERE) if OUT == HERE else path


def run_check(mod, tier, seed0):
    t0 = time.time()
    prop = mod.PROPERTY
    clauses = mod.clauses(tier)
    shrink_budget = float(os.environ.get('VERIF_SHRINK_S', '45' if tier == 'quick' else '180'))
    tasks = []
    for ci, c in enumerate(clauses):
        if c.enumerate is not None:
            ns = min(NPROC, c.max_shards)
        else:
            ns = max(1, min(NPROC, c.max_shards, c.examples[tier] // 5 or 1))
        for s in range(ns):
            tasks.append((mod.__name__, tier, ci, s, ns, seed0, shrink_budget))
    # regression tier: committed replays first (in-process, cheap)
    replay_fail = []
    rdir = os.path.join(HERE, 'replays', prop)
    n_replays = 0
    if os.path.isdir(rdir):
        byname = {c.name: c for c in clauses}
        for fn in sorted(os.listdir(rdir)):
            if not fn.endswith('.json'):
                continue
            with open(os.path.join(rdir, fn)) as fh:
                rep = json.load(fh)
            c = byname.get(rep.get('clause'))
            if c is None:
                continue
            n_replays += 1
            r, unknown, known = judge(mod, c, rep['case'])
            if unknown:
                replay_fail.append((c.name, {'tag': unknown[0][0], 'msg': unknown[0][1], 'case': rep['case']}))

    ctx = mp.get_context('fork')
    merged = [_Stats() for _ in clauses]
    per_clause = [dict(evaluations=0) for _ in clauses]
    with ctx.Pool(min(NPROC, len(tasks))) as pool:
        for cidx, d in pool.imap_unordered(_run_shard, tasks, chunksize=1):
            m = merged[cidx]
            m.evaluations += d['evaluations']
            m.nontrivial |= set(d['nontrivial'])
            for k, v in d['labels'].items():
                m.labels[k] = m.labels.get(k, 0) + v
            for smp in d['samples']:
                if len(m.samples) < 3:
                    m.samples.append(smp)
            for k, v in d['margins'].items():
                m.margins[k] = max(m.margins.get(k, 0.0), v)
            for k, v in d['discards'].items():
                m.discards[k] = m.discards.get(k, 0) + v
            for k, v in d['known'].items():
                e = m.known.setdefault(k, {'count': 0, 'example': v['example']})
                e['count'] += v['count']
            m.failures += d['failures']
            m.errors += d['errors']

    violations = []
    errors = []
    for c, m in zip(clauses, merged):
        errors += [(c.name, e) for e in m.errors]
        seen = set()
        for f in m.failures:
            if f['tag'] in seen:
                continue
            seen.add(f['tag'])
            violations.append((c.name, f))
    violations = replay_fail + violations

    known_hits = {}
    for c, m in zip(clauses, merged):
        for fid, v in m.known.items():
            e = known_hits.setdefault(fid, {'count': 0, 'example': v['example'], 'clauses': []})
            e['count'] += v['count']
            e['clauses'].append(c.name)

    out_lines = []
    for fid, v in sorted(known_hits.items()):
        text = next((f['text'] for f in load_known(prop) if f['id'] == fid), '')
        out_lines.append(f'KNOWN-FINDING: property={prop} {fid}: {text} (hit {v["count"]}x)')
    vio_lines = []
    for cname, f in violations:
        path = write_replay(prop, cname, f)
        vio_lines.append(f'VIOLATION property={prop} replay={path}')
        vio_lines.append(f'  clause={cname} tag={f["tag"]} :: {f["msg"]}')

    evaluations = sum(m.evaluations for m in merged)
    distinct = sum(len(m.nontrivial) for m in merged)
    samples = []
    for c, m in zip(clauses, merged):
        for smp in m.samples[:2]:
            samples.append({'clause': c.name, 'case': smp})
    if not samples:
        samples = [{'note': 'no non-trivial case generated'}]
    ev = {
        'property_id': prop,
        'tier': tier,
        'seed': int(seed0),
        'level': mod.LEVEL,
        'coverage': {
            'evaluations': int(evaluations),
            'distinct_nontrivial': int(distinct),
            'rule': mod.RULE,
            'samples': samples,
            'exhaustive': bool(clauses) and all(c.exhaustive for c in clauses),
            'clauses': {
                c.name: {
                    'evaluations': m.evaluations,
                    'distinct_nontrivial': len(m.nontrivial),
                    'exhaustive': c.exhaustive,
                    'classes': dict(sorted(m.labels.items())),
                    'discarded': m.discards,
                    'worst_margin_err_over_tol': {k: float(f'{v:.3g}') for k, v in sorted(m.margins.items())},
                }
                for c, m in zip(clauses, merged)
            },
            'known_findings_hit': {k: v['count'] for k, v in known_hits.items()},
            'replays_rerun': n_replays,
            'repo_root': repo_root(),
        },
        'assumptions': list(getattr(mod, 'ASSUMPTIONS', [])),
        'wall_s': round(time.time() - t0, 2),
        'violations': len(violations),
    }
    os.makedirs(os.path.join(OUT, 'evidence'), exist_ok=True)
    with open(os.path.join(OUT, 'evidence', f'{prop}.json'), 'w') as fh:
        json.dump(ev, fh, indent=1, default=str)

    for l in out_lines:
        print(l)
    for c, m in zip(clauses, merged):
        print(
            f'[{prop}] {c.name}: {m.evaluations} cases, {len(m.nontrivial)} distinct non-trivial'
            + (f', discarded {sum(m.discards.values())}' if m.discards else '')
        )
    if errors:
        for cname, e in errors[:3]:
            print(f'HARNESS-ERROR clause={cname}\n{e}', file=sys.stderr)
    for l in vio_lines:
        print(l)
    print(f'[{prop}] tier={tier} seed={seed0} wall={ev["wall_s"]}s violations={len(violations)}')
    if violations:
        return 1
    if errors:
        return 2
    if distinct < 2:
        print(f'[{prop}] inconclusive: fewer than 2 distinct non-trivial cases', file=sys.stderr)
        return 2
    return 0


def run_replay(mod, path):
    with open(path) as fh:
        rep = json.load(fh)
    tier = 'quick'
    byname = {c.name: c for c in mod.clauses(tier)}
    c = byname[rep['clause']]
    r, unknown, known = judge(mod, c, rep['case'])
    for fid, tag, msg in known:
        print(f'KNOWN-FINDING: property={mod.PROPERTY} {fid}: {tag} {msg}')
    for tag, msg in unknown:
        print(f'  clause={c.name} tag={tag} :: {msg}')
    if unknown:
        print(f'VIOLATION property={mod.PROPERTY} replay={path}')
        return 1
    print(f'[{mod.PROPERTY}] replay holds on this tree')
    return 0
