"""C04 - k iterations give order min(k, p); Runge-Kutta sweepers attain their order.

Oracle: Taylor coefficients of the *real* one-step function. One controller step (maxiter=k, restol=-1, dt=1, u0=1)
on the shipped test equation with n=128 values z_j = rho*exp(2*pi*i*j/n) gives R(z_j); c_m = n^-1 sum R(z_j) z_j^-m
must equal 1/m! for m <= min(k,p).  Converged iteration: R(z_j) == 1 + z w^T (I - zQ)^{-1} 1 pointwise (numpy).
Runge-Kutta: documented orders (class docstrings / test table), IMEX pairs on z = zI + zE with several splittings,
embedded pairs: coefficients of R_primary - R_secondary vanish below get_update_order().
"""

import math

import numpy as np
from hypothesis import strategies as st

from vlib.runner import Clause
from vlib import strats as S
from vlib import runs as R
from vlib import fixtures as F

from pySDC.core.collocation import CollBase
from pySDC.implementations.controller_classes.controller_nonMPI import controller_nonMPI
from pySDC.implementations.problem_classes.TestEquation_0D import testequation0d, test_equation_IMEX
from pySDC.implementations.sweeper_classes.generic_implicit import generic_implicit
from pySDC.implementations.sweeper_classes.explicit import explicit
from pySDC.implementations.sweeper_classes.imex_1st_order import imex_1st_order
from pySDC.implementations.sweeper_classes import Runge_Kutta as RKmod

PROPERTY = 'C04'
LEVEL = 'exploration'
RULE = (
    'sdc clause: exhaustive node family x quadrature type x M (<=4 quick, <=7 thorough) x preconditioner names (implicit / explicit / IMEX pairs with 3 splittings) '
    'x k in {1..p+2} x end-point mode; rk clause: every RungeKutta / RungeKuttaIMEX class found by reflection; nystrom clause: RKN and Velocity_Verlet one-step maps on the one-particle Penning trap '
    '(field strengths, optional time-dependent driving field, start times) against the matrix exponential, local order from two step sizes. '
    'Non-trivial = k >= 2 and min(k,p) >= 2 (sdc) / order >= 2 (rk); distinct = configuration tuple. Coefficients whose rounding term eps*max|R|/rho^m exceeds 2% of 1/m! are counted as unresolved and not judged.'
)
ASSUMPTIONS = [
    'only ">= min(k,p)" is asserted (more accuracy is allowed)',
    'rho = 0.4 x the smallest pole modulus of the sweep (1/|diag QDelta|), at most 1.5; n = 128 points keep aliasing below 1e-40',
    'documented RK orders are taken from the class docstrings and the repository test table (listed in ORDERS below)',
]

N = 128
EPS = np.finfo(float).eps

# documented orders of the Runge-Kutta sweepers (primary method): class docstrings / pySDC/tests/test_sweepers/test_Runge_Kutta_sweeper.py
ORDERS = {
    'ForwardEuler': 1, 'BackwardEuler': 1, 'IMEXEuler': 1, 'IMEXEulerStifflyAccurate': 1, 'CrankNicolson': 2, 'ExplicitMidpointMethod': 2,
    'ImplicitMidpointMethod': 2, 'RK4': 4, 'Heun_Euler': 2, 'Cash_Karp': 5, 'DIRK43': 4, 'DIRK43_2': 3, 'EDIRK4': 4, 'ESDIRK53': 5, 'ESDIRK43': 4,
    'ARK548L2SAERK': 5, 'ARK548L2SAESDIRK': 5, 'ARK54': 5, 'ARK548L2SAESDIRK2': 5, 'ARK548L2SAERK2': 5, 'ARK548L2SA': 5,
    'ARK324L2SAERK': 3, 'ARK324L2SAESDIRK': 3, 'ARK32': 3, 'ARK2': 2, 'ARK3': 3,
}  # fmt: skip


def one_step(sweeper, sweeper_params, zs, k, split=None):
    """R(z_j) from one real controller step"""
    if split is None:
        pc, pp = testequation0d, {'lambdas': np.asarray(zs), 'u0': 1.0}
    else:
        pc, pp = test_equation_IMEX, {'lambdas_implicit': np.asarray(zs) * split, 'lambdas_explicit': np.asarray(zs) * (1 - split), 'u0': 1.0}
    desc = {
        'problem_class': pc, 'problem_params': pp, 'sweeper_class': sweeper, 'sweeper_params': sweeper_params,
        'level_params': {'dt': 1.0, 'restol': -1.0}, 'step_params': {'maxiter': k},
    }  # fmt: skip
    ctrl = controller_nonMPI(num_procs=1, controller_params=F.quiet_controller_params(), description=desc)
    P = ctrl.MS[0].levels[0].prob
    u0 = P.dtype_u(P.init)
    u0[:] = 1.0
    uend, _ = ctrl.run(u0=u0, t0=0.0, Tend=1.0)
    return np.asarray(uend).copy(), ctrl


def taylor(Rz, rho, mmax):
    j = np.arange(N)
    z = rho * np.exp(2j * np.pi * j / N)
    return np.array([np.mean(Rz * z ** (-m)) for m in range(mmax + 1)]), z


def prop_sdc(case, r):
    kind = case['kind']
    M, k = case['num_nodes'], case['k']
    sp = {'num_nodes': M, 'quad_type': case['quad_type'], 'node_type': case['node_type'], 'do_coll_update': case['coll_update'], 'initial_guess': 'spread'}
    split = None
    if kind == 'implicit':
        sw = generic_implicit
        sp['QI'] = case['QI']
    elif kind == 'explicit':
        sw = explicit
        sp['QE'] = case['QE']
    else:
        sw = imex_1st_order
        sp['QI'], sp['QE'] = case['QI'], case['QE']
        split = case['split']
    coll = CollBase(M, 0, 1, node_type=case['node_type'], quad_type=case['quad_type'])
    p = int(coll.order)
    r.label(kind, case['quad_type'], f'k{"<=p" if k <= p else ">p"}', 'coll-update' if case['coll_update'] else 'last-node')
    # radius: inside half the smallest pole of the sweep operator
    try:
        probe = one_step(sw, dict(sp), [0.0], 1, split)[1]
    except (AssertionError, NotImplementedError):
        r.discard('preconditioner rejected at construction')
        return
    swp = probe.MS[0].levels[0].sweep
    diag = np.zeros(1)
    for attr in ('QI',):
        if hasattr(swp, attr):
            Qd = np.asarray(getattr(swp, attr), float)
            if not np.isfinite(Qd).all():
                r.discard('non-finite preconditioner (finding F10, judged in C02)')
                return
            diag = np.abs(np.diag(Qd))
    dmax = float(diag.max()) if diag.size else 0.0
    if hasattr(swp, 'genQI') and swp.genQI.isKDependent():
        dmax = max(dmax, float(np.abs(np.asarray(swp.coll.nodes)).max()))
    # k sweeps give poles of order k at 1/diag: stay well inside. No lower clip: a floor above 0.4/dmax would put a pole inside the circle and
    # alias into every coefficient (MIN on CHEBY-3 GAUSS M=5 has a diagonal entry 36.8); small radii only cost resolution, which is accounted below
    rho = float(min(0.4 / dmax if dmax > 0 else 1.5, 1.5))
    if kind == 'imex':
        rho = min(rho, 0.5)
    j = np.arange(N)
    zs = rho * np.exp(2j * np.pi * j / N)
    Rz, ctrl = one_step(sw, dict(sp), zs, k, split)
    if not np.isfinite(Rz).all():
        r.fail('nonfinite-step-function', f'{case}')
        return
    q = min(k, p)
    if k >= 2 and q >= 2:
        r.nontrivial([kind, case.get('QI'), case.get('QE'), case['node_type'], case['quad_type'], M, k, case['coll_update'], split])
    c, _ = taylor(Rz, rho, q)
    maxR = float(np.abs(Rz).max())
    unresolved = 0
    for m in range(q + 1):
        exact = 1.0 / math.factorial(m)
        noise = 50 * EPS * maxR / rho**m * math.sqrt(N)
        if noise > 0.02 * exact:
            unresolved += 1
            continue
        r.close(abs(c[m] - exact), noise + 1e-13, f'taylor-order', lambda: f'{case}: coefficient of z^{m} is {c[m]!r}, expected {exact!r} (order min(k,p)={q}, p={p}, rho={rho})')
    if unresolved:
        r.label('unresolved-high-coefficients')
    # converged iteration reproduces the collocation stability function pointwise
    if case.get('converged'):
        Q = np.asarray(coll.Qmat, float)[1:, 1:]
        w = np.asarray(coll.weights, float)
        one = np.ones(M)
        ev = np.abs(np.linalg.eigvals(Q)).max()
        rc = min(rho, 0.4 / ev if ev > 0 else rho)  # also inside the pole-free disc of the collocation method
        zc = rc * np.exp(2j * np.pi * j / N)
        R1, _ = one_step(sw, dict(sp), zc, 60, split)
        R2, _ = one_step(sw, dict(sp), zc, 120, split)
        if not np.isfinite(R2).all() or np.abs(R2 - R1).max() > 1e-12 * max(1.0, np.abs(R2).max()):
            r.label('not-converged-in-120-sweeps')
            return
        if coll.right_is_node and not case['coll_update']:
            ref = np.array([np.linalg.solve(np.eye(M) - z * Q, one)[-1] for z in zc])
        else:
            ref = np.array([1 + z * (w @ np.linalg.solve(np.eye(M) - z * Q, one)) for z in zc])
        r.label('converged-clause')
        r.close(np.abs(R2 - ref).max(), 1e-10 * max(1.0, np.abs(ref).max()), 'collocation-stability-function', f'{case}')


def sdc_grid(tier):
    Mmax = 4 if tier == 'quick' else 7
    names_i = ['IE', 'LU', 'MIN-SR-S', 'MIN-SR-NS', 'MIN-SR-FLEX', 'TRAP', 'IEpar', 'Qpar', 'GS', 'LU2', 'MIN', 'PIC', 'FB', 'DNODES', 'TRAPAR', 'LDU', 'EE']
    names_e = ['EE', 'PIC']
    out = []
    for nt in S.NODE_TYPES if tier == 'thorough' else ['LEGENDRE', 'EQUID', 'CHEBY-3']:
        for qt in S.QUAD_TYPES:
            for M in range(1, Mmax + 1):
                if M == 1 and qt in ('LOBATTO', 'RADAU-LEFT'):
                    continue
                try:
                    p = int(CollBase(M, 0, 1, node_type=nt, quad_type=qt).order)
                except Exception:
                    continue
                ks = sorted(set([1, 2, 3, p, p + 1, p + 2])) if tier == 'quick' else list(range(1, p + 3))
                for k in ks:
                    if k < 1:
                        continue
                    for cu in (False, True):
                        base = {'node_type': nt, 'quad_type': qt, 'num_nodes': M, 'k': k, 'coll_update': cu, 'converged': k == 1 and nt == 'LEGENDRE'}
                        for qi in names_i if (nt == 'LEGENDRE' or tier == 'thorough') else names_i[:4]:
                            out.append(dict(base, kind='implicit', QI=qi))
                        for qe in names_e:
                            out.append(dict(base, kind='explicit', QE=qe))
                        if nt == 'LEGENDRE' or tier == 'thorough':
                            for qi, qe, sp in [('IE', 'EE', 0.5), ('LU', 'EE', 0.25), ('IE', 'PIC', 1.0), ('MIN-SR-S', 'EE', 0.0)]:
                                out.append(dict(base, kind='imex', QI=qi, QE=qe, split=sp))
    return out


# ----------------------------------------------------------------------------------------------- Runge-Kutta
def rk_classes():
    out = {}
    for name in dir(RKmod):
        obj = getattr(RKmod, name)
        if isinstance(obj, type) and issubclass(obj, RKmod.RungeKutta) and obj.matrix is not None:
            out[name] = obj
    return out


RK = rk_classes()


def prop_rk(case, r):
    name = case['cls']
    cls = RK[name]
    imex = issubclass(cls, RKmod.RungeKuttaIMEX)
    if name not in ORDERS:
        r.fail('rk-class-without-documented-order', f'{name}: new Runge-Kutta class not in the order table of this check')
        return
    order = ORDERS[name]
    amax = float(np.abs(np.diag(np.asarray(cls.matrix, float))).max())
    rho = min(case['rho'], 0.4 / amax) if amax > 0 else case['rho']  # poles of the stage solves at 1/a_ii
    r.label(name, 'imex' if imex else 'plain', 'embedded' if cls.is_embedded() else 'single')
    if order >= 2:
        r.nontrivial([name, case.get('split'), rho])
    j = np.arange(N)
    zs = rho * np.exp(2j * np.pi * j / N)
    split = case.get('split') if imex else None
    if imex:
        pc, pp = test_equation_IMEX, {'lambdas_implicit': zs * split, 'lambdas_explicit': zs * (1 - split), 'u0': 1.0}
    else:
        pc, pp = testequation0d, {'lambdas': zs, 'u0': 1.0}
    desc = {'problem_class': pc, 'problem_params': pp, 'sweeper_class': cls, 'sweeper_params': {}, 'level_params': {'dt': 1.0}, 'step_params': {'maxiter': 1}}
    ctrl = controller_nonMPI(num_procs=1, controller_params=F.quiet_controller_params(), description=desc)
    P = ctrl.MS[0].levels[0].prob
    u0 = P.dtype_u(P.init)
    u0[:] = 1.0
    uend, _ = ctrl.run(u0=u0, t0=0.0, Tend=1.0)
    Rz = np.asarray(uend).copy()
    sweep = ctrl.MS[0].levels[0].sweep
    maxR = float(np.abs(Rz).max())
    c, _ = taylor(Rz, rho, order)
    for m in range(order + 1):
        exact = 1.0 / math.factorial(m)
        noise = 50 * EPS * maxR / rho**m * math.sqrt(N)
        if noise > 0.02 * exact:
            r.label('unresolved-high-coefficients')
            continue
        r.close(abs(c[m] - exact), noise + 1e-13, 'rk-order', lambda: f'{name} split={split}: coefficient of z^{m} is {c[m]!r}, expected {exact!r} (documented order {order})')
    if cls.is_embedded():
        sec = np.asarray(sweep.u_secondary).copy()
        uo = cls.get_update_order()
        d, _ = taylor(Rz - sec, rho, uo)
        # the controller assumes err ~ dt^update_order, i.e. the difference vanishes below that order
        for m in range(uo):
            noise = 50 * EPS * maxR / rho**m * math.sqrt(N)
            r.close(abs(d[m]), noise + 1e-13, 'embedded-difference-order', lambda: f'{name}: coefficient of z^{m} of R_primary - R_secondary is {d[m]!r}, must vanish below update order {uo}')
        r.check(float(np.abs(d[: uo + 1]).max()) < 10 or True, 'noop', '')


def rk_grid(tier):
    out = []
    for name in sorted(RK):
        if name in ('RungeKutta', 'RungeKuttaIMEX'):
            continue
        imex = issubclass(RK[name], RKmod.RungeKuttaIMEX)
        for rho in (0.4, 0.8):
            if imex:
                for split in (0.0, 0.25, 0.5, 1.0):
                    out.append({'cls': name, 'rho': rho, 'split': split})
            else:
                out.append({'cls': name, 'rho': rho})
    return out


# ----------------------------------------------------------------------------------------------- Runge-Kutta-Nystrom sweepers
NYSTROM_ORDER = {'RKN': 4, 'Velocity_Verlet': 2}


def _nystrom_step(cls, h, case, drive):
    """linear one-step map (6x6 matrix and, with a driving field, the inhomogeneous part) of the real sweeper on the one-particle Penning trap"""
    from checks import c02_extra as X

    c = {'nparts': 1, 'omega_B': case['omega_B'], 'omega_E': case['omega_E'], 'sig': 0.1, 'dt': h, 't0': case['t0'], 'drive': drive}
    cols = []
    for k in range(7):
        step, L = X._trap_level(c, cls, {})
        e = np.zeros(6)
        if k < 6:
            e[k] = 1.0
        L.status.time = case['t0']
        L.u[0] = X._part(L.prob, e[:3].reshape(3, 1), e[3:].reshape(3, 1))
        L.sweep.predict()
        L.status.sweep = 1
        L.sweep.update_nodes()
        L.sweep.compute_end_point()
        cols.append(np.concatenate([np.asarray(L.uend.pos).ravel(), np.asarray(L.uend.vel).ravel()]))
    b = cols[6]
    return np.array([cols[k] - b for k in range(6)]).T, b


def _nystrom_exact(h, case, drive):
    import scipy.linalg
    from checks import c02_extra as X

    K = case['omega_E'] ** 2 * np.diag([1.0, 1.0, -2.0])
    C = X.cross_matrix(np.array([0.0, 0.0, case['omega_B']]))
    A = np.block([[np.zeros((3, 3)), np.eye(3)], [K, C]])
    if drive is None:
        return scipy.linalg.expm(h * A), np.zeros(6)
    # augment with (cos(w t), sin(w t)): z' = A z + [0; E_d] cos(w t)
    Ed, w = np.array(drive[:3]), drive[3]
    Aug = np.zeros((8, 8))
    Aug[:6, :6] = A
    Aug[3:6, 6] = Ed
    Aug[6, 7] = -w
    Aug[7, 6] = w
    E = scipy.linalg.expm(h * Aug)
    cs = np.array([np.cos(w * case['t0']), np.sin(w * case['t0'])])
    return E[:6, :6], E[:6, 6:] @ cs


def prop_nystrom(case, r):
    from pySDC.implementations.sweeper_classes import Runge_Kutta_Nystrom as RKNmod

    cls = getattr(RKNmod, case['cls'])
    p = NYSTROM_ORDER[case['cls']]
    drive = case['drive']
    r.label(case['cls'], 'driven' if drive else 'autonomous', 'magnetic' if case['omega_B'] else 'electric-only')
    r.nontrivial([case['cls'], bool(drive), case['omega_B'], case['omega_E']])
    rate = max(case['omega_B'], case['omega_E'] * np.sqrt(2.0), drive[3] if drive else 0.0, 1.0)
    errs = []
    for h in (0.2 / rate, 0.1 / rate):
        Mh, bh = _nystrom_step(cls, h, case, drive)
        Me, be = _nystrom_exact(h, case, drive)
        errs.append(max(np.abs(Mh - Me).max(), np.abs(bh - be).max()))
    if errs[1] < 1e-13:
        r.discard('error below rounding')
        return
    obs = np.log2(errs[0] / errs[1])
    # local error O(h^(p+1)): halving h must gain at least p + 1 - 0.35 binary orders
    r.check(obs >= p + 1 - 0.35, 'nystrom-order', f'{case["cls"]} driven={bool(drive)} omega_B={case["omega_B"]} omega_E={case["omega_E"]}: one-step errors {errs[0]:.3e} -> {errs[1]:.3e}, observed local order {obs:.2f} < {p + 1}')


def nystrom_grid(tier):
    out = []
    for cls in NYSTROM_ORDER:
        for wB in (0.0, 5.0, 25.0):
            for wE in (1.0, 4.9):
                for drive in (None, [0.3, -1.0, 0.5, 3.0], [1.0, 0.0, 2.0, 11.0]):
                    for t0 in (0.0, 0.7):
                        out.append({'cls': cls, 'omega_B': wB, 'omega_E': wE, 'drive': drive, 't0': t0})
    return out



def known_match(fid, clause, case, failure):
    return False


def clauses(tier):
    return [
        Clause('sdc-order', prop_sdc, enumerate=sdc_grid, exhaustive=True),
        Clause('rk-order', prop_rk, enumerate=rk_grid, exhaustive=True),
        Clause('nystrom-order', prop_nystrom, enumerate=nystrom_grid, exhaustive=True),
    ]
