"""C15 - ParaDiag diagonalises the all-at-once system and converges to the serial answer.

Oracles: dense matrix identities (W W^-1 = I, W E_alpha W^-1 diagonal with exactly the entries the local factors use,
(W(x)I)(E_alpha(x)H + I(x)I)(W^-1(x)I) = blockdiag(G_l)); one application of the diagonalisation sweeper against a dense
solve of (G(x)I - dt Q(x)A) y = r; converged ParaDiag runs against sequential dense collocation stepping.
"""

import numpy as np
from hypothesis import strategies as st

from vlib.runner import Clause
from vlib import strats as S
from vlib import runs as R
from vlib import fixtures as F

from pySDC.core.step import Step
from pySDC.core.collocation import CollBase
from pySDC.helpers import ParaDiagHelper as PH
from pySDC.implementations.controller_classes.controller_ParaDiag_nonMPI import controller_ParaDiag_nonMPI
from pySDC.implementations.sweeper_classes.ParaDiagSweepers import QDiagonalization, QDiagonalizationIMEX
from pySDC.implementations.problem_classes.TestEquation_0D import testequation0d

PROPERTY = 'C15'
LEVEL = 'exploration'
RULE = (
    'matrices clause: exhaustive n_steps 1..16 x 14 alphas over ten decades (incl. 1) x M 1..5; sweeper clause: Hypothesis draws M, dt, complex dense operator, '
    'G_inv (identity, a ParaDiag factor at construction, or installed later through set_G_inv), ignore_ic on/off; runs clause: n_steps 1..8 (16 thorough), alpha in 10^[-10,-1], '
    'M 1..4, scalar/vector Dahlquist and dense complex fixtures, implicit and IMEX variants, averaged Jacobian on/off. Non-trivial = n_steps >= 2 and M >= 2; distinct = parameter tuple.'
)
ASSUMPTIONS = [
    'alpha = 1 makes the l=0 factor singular by mathematics: only the transform clauses are asserted there and the factor must be reported singular/non-finite',
    'ParaDiag runs are compared after convergence to restol; the bound is kappa(all-at-once) * restol',
]
EPS = np.finfo(float).eps
ALPHAS = [1.0, 0.5, 0.1, 1e-2, 1e-3, 1e-4, 1e-5, 1e-6, 1e-7, 1e-8, 1e-9, 1e-10, 0.3, 3e-6]


def prop_matrices(case, r):
    Ln, alpha, M = case['n_steps'], case['alpha'], case['num_nodes']
    r.label(f'alpha{"=1" if alpha == 1 else "<1"}', 'odd' if Ln % 2 else 'even')
    if Ln >= 2 and M >= 2:
        r.nontrivial([Ln, alpha, M])
    W = np.asarray(PH.get_weighted_FFT_matrix(Ln, alpha))
    Wi = np.asarray(PH.get_weighted_iFFT_matrix(Ln, alpha))
    I = np.eye(Ln)
    tol = 200 * EPS * Ln
    r.close(np.abs(W @ Wi - I).max(), tol, 'W*Winv=I', f'{case}')
    # in this order rounding errors of F*F are scaled entrywise by gamma_i/gamma_j <= 1/alpha
    r.close(np.abs(Wi @ W - I).max(), tol / alpha, 'Winv*W=I', f'{case}')
    E = np.asarray(PH.get_E_matrix(Ln, alpha).todense())
    # independent statement of E_alpha: -1 on the lower subdiagonal, -alpha top right
    Eind = np.zeros((Ln, Ln))
    for i in range(1, Ln):
        Eind[i, i - 1] = -1.0
    Eind[0, Ln - 1] += -alpha
    r.check(np.array_equal(E, Eind), 'E-matrix', f'{case}')
    D = W @ Eind @ Wi
    off = D - np.diag(np.diag(D))
    r.close(np.abs(off).max(), tol * max(1.0, np.abs(np.diag(D)).max()), 'E-diagonalised', f'{case}')
    # analytic eigenvalues of the alpha-circulant matrix: -alpha^(1/L) exp(-2 pi i l / L)
    lam = -(alpha ** (1.0 / Ln)) * np.exp(-2j * np.pi * np.arange(Ln) / Ln)
    r.close(np.abs(np.diag(D) - lam).max(), tol, 'E-eigenvalues', f'{case}')
    sp = {'num_nodes': M, 'quad_type': 'RADAU-RIGHT'}
    H = np.zeros((M, M))
    H[:, -1] = 1.0
    r.check(np.array_equal(np.asarray(PH.get_H_matrix(M, sp).todense()), H), 'H-matrix', '')
    blocks = []
    for l in range(Ln):
        Gl = lam[l] * H + np.eye(M)
        singular = abs(np.linalg.det(Gl)) < 1e-12
        try:
            Ginv = np.asarray(PH.get_G_inv_matrix(l, Ln, alpha, sp))
        except Exception as e:
            r.check(singular, 'G_inv-raises', f'l={l} {case}: {type(e).__name__}')
            r.label('singular-factor-reported')
            blocks.append(None)
            continue
        if singular:
            r.check(not np.isfinite(Ginv).all() or np.abs(Ginv).max() > 1e10, 'singular-factor-accepted', f'l={l} {case}')
            r.label('singular-factor-reported')
            blocks.append(None)
            continue
        r.close(np.abs(Ginv @ Gl - np.eye(M)).max(), 1e3 * EPS * max(1.0, np.linalg.cond(Gl)), 'G_inv-factor', f'l={l} {case}')
        blocks.append(Gl)
    if all(b is not None for b in blocks):
        big = np.kron(Eind, H) + np.eye(Ln * M)
        T = np.kron(W, np.eye(M)) @ big @ np.kron(Wi, np.eye(M))
        BD = np.zeros((Ln * M, Ln * M), dtype=complex)
        for l, b in enumerate(blocks):
            BD[l * M : (l + 1) * M, l * M : (l + 1) * M] = b
        r.close(np.abs(T - BD).max(), tol * 4, 'block-diagonalisation', f'{case}')


def matrices_grid(tier):
    return [{'n_steps': Ln, 'alpha': a, 'num_nodes': M} for Ln in range(1, 17) for a in ALPHAS for M in range(1, 6)]


# ----------------------------------------------------------------------------------------------- sweeper
def cmat(A):
    return np.array(A, dtype=float)[..., 0] + 1j * np.array(A, dtype=float)[..., 1]


def prop_sweeper(case, r):
    M, n = case['num_nodes'], case['n']
    imex = case['imex']
    sp = {'num_nodes': M, 'quad_type': 'RADAU-RIGHT', 'ignore_ic': case['ignore_ic'], 'update_f_evals': not case['ignore_ic']}
    psp = {'num_nodes': M, 'quad_type': 'RADAU-RIGHT'}
    G_target = None
    if case['G'] != 'identity':
        l, Ln, alpha = case['G_l'], case['G_L'], case['G_alpha']
        G_target = np.asarray(PH.get_G_inv_matrix(l % Ln, Ln, alpha, psp))
    if case['G'] == 'construction':
        sp['G_inv'] = G_target
    if imex:
        pc, pp = F.LinVecIMEX, {'AI': np.array(case['A']), 'AE': np.array(case['A2']), 'gI': None, 'gE': None, 'cplx': True}
    else:
        pc, pp = F.LinVec, {'A': np.array(case['A']), 'g': None, 'cplx': True}
    desc = {'problem_class': pc, 'problem_params': pp, 'sweeper_class': QDiagonalizationIMEX if imex else QDiagonalization, 'sweeper_params': sp, 'level_params': {'dt': case['dt']}, 'step_params': {'maxiter': 1}}
    step = Step(desc)
    L = step.levels[0]
    P = L.prob
    sw = L.sweep
    if case['G'] == 'set_later':
        sw.set_G_inv(G_target)
    r.label(case['G'], 'ignore_ic' if case['ignore_ic'] else 'with_ic', 'imex' if imex else 'implicit')
    if M >= 2:
        r.nontrivial([M, n, case['G'], case['ignore_ic'], imex])
    Ginv = np.eye(M) if G_target is None else G_target
    G = np.linalg.inv(Ginv)
    Q = np.asarray(sw.coll.Qmat, float)[1:, 1:]
    A = cmat(case['A'])
    dt = case['dt']
    L.status.time = 0.0
    L.status.unlocked = True
    u0 = P.dtype_u(P.init)
    u0[:] = cmat(case['u0'])
    L.u[0] = u0
    for m in range(1, M + 1):
        L.u[m] = P.dtype_u(u0)
        L.f[m] = P.eval_f(L.u[m], 0.0)
    L.f[0] = P.eval_f(L.u[0], 0.0)
    rr = cmat(case['rhs']).reshape(M, n)
    for m in range(M):
        x = P.dtype_u(P.init)
        x[:] = rr[m]
        L.residual[m] = x
    sw.update_nodes()
    lhs = np.kron(G, np.eye(n)) - dt * np.kron(Q, A)
    cond = np.linalg.cond(lhs)
    if cond > 1e8:
        r.discard('local system ill-conditioned')
        return
    if case['ignore_ic']:
        rhs = rr.ravel()
        got = np.array([np.asarray(x) for x in L.increment]).ravel()
    else:
        rhs = np.kron(np.ones(M), np.asarray(u0))
        got = np.array([np.asarray(x) for x in L.u[1:]]).ravel()
    ref = np.linalg.solve(lhs, rhs)
    scale = max(1.0, np.abs(ref).max())
    r.close(np.abs(got - ref).max(), 1e-10 * cond * scale, 'sweeper-solves-local-system', lambda: f'{case["G"]} M={M} n={n} ignore_ic={case["ignore_ic"]}')
    if not case['ignore_ic'] and case['G'] == 'identity':
        # collocation defect of the result: u0 + dt Q A U - U
        U = got.reshape(M, n)
        d = np.asarray(u0)[None, :] + dt * Q @ (U @ A.T) - U
        r.close(np.abs(d).max(), 1e-10 * cond * scale, 'collocation-solved-in-one-application')


@st.composite
def sweeper_cases(draw):
    M = draw(st.integers(1, 5))
    n = draw(st.integers(1, 3))
    cm = st.lists(st.lists(st.tuples(S.small_float(-1.5, 0.5), S.small_float(-1.5, 1.5)).map(list), min_size=n, max_size=n), min_size=n, max_size=n)
    return {
        'num_nodes': M, 'n': n, 'A': draw(cm), 'A2': draw(cm), 'dt': draw(st.sampled_from([0.05, 0.2, 0.5, 1.0])), 'imex': False,
        'G': draw(st.sampled_from(['identity', 'construction', 'set_later'])), 'G_l': draw(st.integers(0, 15)), 'G_L': draw(st.integers(1, 16)),
        'G_alpha': draw(st.sampled_from([0.5, 1e-1, 1e-3, 1e-6])), 'ignore_ic': draw(st.booleans()),
        'u0': draw(st.lists(st.tuples(S.small_float(), S.small_float()).map(list), min_size=n, max_size=n)),
        'rhs': draw(st.lists(st.tuples(S.small_float(), S.small_float()).map(list), min_size=M * n, max_size=M * n)),
    }  # fmt: skip


# ----------------------------------------------------------------------------------------------- converged runs
def prop_runs(case, r):
    Ln, alpha, M = case['n_steps'], case['alpha'], case['num_nodes']
    imex = case['imex']
    n = case['n']
    r.label('imex' if imex else 'implicit', case['problem'], 'avg-jac' if case['avg'] else 'no-avg', 'odd' if Ln % 2 else 'even')
    if Ln >= 2 and M >= 2:
        r.nontrivial([Ln, alpha, M, imex, case['problem'], case['avg'], n])
    if case['problem'] == 'dahlquist':
        lam = np.array([complex(a, b) for a, b in case['lambdas']])
        if imex:
            pc, pp = F.LinVecIMEX, {'AI': np.stack([np.diag(lam).real, np.diag(lam).imag], -1), 'AE': np.stack([0.1 * np.diag(lam).imag, 0 * np.diag(lam).real], -1), 'gI': None, 'gE': None, 'cplx': True}
            A = np.diag(lam) + 0.1 * np.diag(lam).imag
        else:
            pc, pp = testequation0d, {'lambdas': lam, 'u0': 1.0}
            A = np.diag(lam)
    else:
        if imex:
            pc, pp = F.LinVecIMEX, {'AI': np.array(case['A']), 'AE': 0.1 * np.array(case['A2']), 'gI': None, 'gE': None, 'cplx': True}
            A = cmat(case['A']) + 0.1 * cmat(case['A2'])
        else:
            pc, pp = F.LinVec, {'A': np.array(case['A']), 'g': None, 'cplx': True}
            A = cmat(case['A'])
    nA = A.shape[0]
    restol = 1e-10
    desc = {
        'problem_class': pc, 'problem_params': pp, 'sweeper_class': QDiagonalizationIMEX if imex else QDiagonalization,
        'sweeper_params': {'num_nodes': M, 'quad_type': 'RADAU-RIGHT'}, 'level_params': {'dt': case['dt'], 'restol': restol}, 'step_params': {'maxiter': 60},
    }  # fmt: skip
    ctrl = controller_ParaDiag_nonMPI(num_procs=Ln, controller_params=F.quiet_controller_params(alpha=alpha, average_jacobian=case['avg']), description=desc)
    prob = ctrl.MS[0].levels[0].prob
    u0 = prob.dtype_u(prob.init)
    u0[:] = np.resize(cmat(case['u0']), u0.shape)
    nblocks = case['nblocks']
    dt = case['dt']
    uend, stats = ctrl.run(u0=u0, t0=0.0, Tend=dt * Ln * nblocks)
    from pySDC.helpers.stats_helper import get_sorted

    niter = [v for t, v in get_sorted(stats, type='niter', sortby='time')]
    if not niter or max(niter) >= 60 or not np.isfinite(np.asarray(uend)).all():
        if not imex:
            # linear, fully implicit: the preconditioned iteration contracts like alpha/(1-alpha) <= 1/9
            r.fail('paradiag-no-convergence', f'L={Ln} alpha={alpha} M={M} {case["problem"]}: no convergence to restol within 60 iterations (niter {niter[:3]})')
        else:
            r.discard('IMEX ParaDiag iteration did not reach restol within 60 iterations')
        return
    coll = CollBase(M, 0, 1, quad_type='RADAU-RIGHT')
    Q = np.asarray(coll.Qmat, float)[1:, 1:]
    lhs = np.eye(M * nA) - dt * np.kron(Q, A)
    inv = np.linalg.inv(lhs)
    kappa = np.abs(inv).sum(axis=1).max()
    u = np.asarray(u0).copy().astype(complex)
    for _ in range(Ln * nblocks):
        U = (inv @ np.kron(np.ones(M), u)).reshape(M, nA)
        u = U[-1]
    growth = max(1.0, np.abs(u).max(), np.abs(np.asarray(u0)).max())
    tol = 50 * kappa * Ln * nblocks * restol * growth + 1e-11 * growth
    r.close(np.abs(np.asarray(uend) - u).max(), tol, 'paradiag-equals-sequential-collocation', lambda: f'L={Ln} alpha={alpha} M={M} imex={imex} {case["problem"]}: niter {niter[:3]}')
    # iteration count: contraction ~ alpha/(1-alpha) for the linear implicit case -> few iterations for small alpha
    if not imex and alpha <= 1e-4:
        r.check(max(niter) <= 8, 'paradiag-iterations', f'needed {max(niter)} iterations with alpha={alpha} (preconditioner mismatch?) L={Ln} M={M}')


@st.composite
def run_cases(draw, maxL=8):
    Ln = draw(st.integers(1, maxL))
    n = draw(st.integers(1, 3))
    cm = st.lists(st.lists(st.tuples(S.small_float(-1.5, -0.05), S.small_float(-1.0, 1.0)).map(list), min_size=n, max_size=n), min_size=n, max_size=n)
    problem = draw(st.sampled_from(['dahlquist', 'dense']))
    case = {
        'n_steps': Ln, 'alpha': draw(st.sampled_from([1e-1, 1e-2, 1e-3, 1e-4, 1e-6, 1e-8, 1e-10, 3e-5])), 'num_nodes': draw(st.integers(1, 4)), 'imex': draw(st.booleans()),
        'problem': problem, 'avg': draw(st.booleans()), 'n': n, 'dt': draw(st.sampled_from([0.05, 0.1, 0.25])), 'nblocks': draw(st.integers(1, 2)),
        'lambdas': [[-abs(draw(S.small_float(-2, 2))) - 0.05, draw(S.small_float(-2, 2))] for _ in range(n)],
        'A': draw(cm), 'A2': draw(cm), 'u0': draw(st.lists(st.tuples(S.small_float(0.2, 1.5), S.small_float(-1, 1)).map(list), min_size=n, max_size=n)),
    }  # fmt: skip
    if problem == 'dense':
        # make the dense operator dissipative: A := B - (|B|_1 + 0.1) I on the real part
        B = np.array(case['A'], dtype=float)
        shift = np.abs(B[..., 0]).sum(axis=1).max() + 0.1
        for i in range(n):
            B[i, i, 0] -= shift
        case['A'] = B.tolist()
    return case


def known_match(fid, clause, case, failure):
    return False


def clauses(tier):
    return [
        Clause('matrices', prop_matrices, enumerate=matrices_grid, exhaustive=True),
        Clause('sweeper', prop_sweeper, strategy=sweeper_cases(), examples={'quick': 600, 'thorough': 12000}),
        Clause('runs', prop_runs, strategy=run_cases(8 if tier == 'quick' else 16), examples={'quick': 250, 'thorough': 5000}),
    ]
