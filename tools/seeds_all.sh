#!/bin/sh
# run the registered quick check of each kept seeded change against a scratch copy with the patch applied
# usage: tools/seeds_all.sh [PROP-n ...]   (default: all under /verif/seeded)
cd /verif
names="$@"; [ -z "$names" ] && names=$(ls seeded)
for s in $names; do
  prop=${s%%-*}
  res=$(tools/mut.py $prop --patch seeded/$s/patch.diff quick 2>&1 | grep -E "^MUT:" | tail -1)
  echo "$s: $res"
done
