"""C01 - converged SDC/MLSDC/PFASST returns the fine collocation solution.

Oracle: dense collocation solve per accepted step, U* = (I - dt Q(x)A)^{-1}(1(x)s + dt Q(x)I G), started from the step's
actual start value s; the admissible distance is kappa * (defect the level really holds, recomputed by the harness),
so it is a rigorous a-posteriori bound (U - U* = (I - dt Q A)^{-1} r).  The premise ("iterated to its residual
tolerance") is itself verified from the node values: a step that stopped by residual must hold a defect <= restol in the
configured residual type.
"""

import numpy as np
from hypothesis import strategies as st

from vlib.runner import Clause
from vlib import strats as S
from vlib import runs as R
from vlib import fixtures as F

from pySDC.core.errors import ControllerError
from pySDC.implementations.sweeper_classes.generic_implicit import generic_implicit
from pySDC.implementations.sweeper_classes.explicit import explicit
from pySDC.implementations.sweeper_classes.imex_1st_order import imex_1st_order
from pySDC.implementations.sweeper_classes.multi_implicit import multi_implicit
from pySDC.implementations.problem_classes.HeatEquation_ND_FD import heatNd_unforced
from pySDC.implementations.problem_classes.AdvectionEquation_ND_FD import advectionNd
from pySDC.implementations.problem_classes.TestEquation_0D import testequation0d
from pySDC.implementations.transfer_classes.TransferMesh import mesh_to_mesh
from pySDC.implementations.transfer_classes.TransferMesh_NoCoarse import mesh_to_mesh as nocoarse

PROPERTY = 'C01'
LEVEL = 'exploration'
RULE = (
    'Hypothesis draws problem (dense linear fixtures incl. IMEX and two-operator splittings with forcing, scalar/vector Dahlquist, FD heat and advection '
    'with random coefficients and initial data) x sweeper x preconditioner x node family/type/count x 1-3 levels (node and/or space coarsening, '
    'Lagrange transfer orders 2-8) x 1-6 parallel steps x predictor x coupling mode x nsweeps x residual type x initial guess x end-point mode x restol. '
    'Non-trivial = >= 2 steps, every step needed >= 2 iterations and the configuration differs from the baseline (1 level, 1 step/block, LU, spread); '
    'distinct = configuration tuple. Runs in which a step hit maxiter are discarded and counted (the property is conditional on convergence).'
)
ASSUMPTIONS = [
    'the bound uses the defect recomputed by the harness from the node values the level holds after the step (not the reported residual)',
    'kappa = inf-norm of the inverse collocation operator computed densely; floor 1e-12*kappa*scale for rounding',
]

SW = {'generic_implicit': generic_implicit, 'explicit': explicit, 'imex_1st_order': imex_1st_order, 'multi_implicit': multi_implicit}


def _np(x):
    return np.array(x, dtype=float)


def build(case):
    sw = case['sweeper']
    L = case['levels']
    nodes = case['num_nodes']  # list per level
    sp = {'num_nodes': nodes if L > 1 else nodes[0], 'quad_type': case['quad_type'], 'node_type': case['node_type'], 'initial_guess': case['initial_guess'], 'do_coll_update': case['coll_update']}
    if sw == 'generic_implicit':
        sp['QI'] = case['QI']
    elif sw == 'explicit':
        sp['QE'] = case['QE']
    elif sw == 'imex_1st_order':
        sp['QI'], sp['QE'] = case['QI'], case['QE']
    else:
        sp['Q1'], sp['Q2'] = case['QI'], case['Q2']
    pk = case['problem']
    desc = {}
    if pk == 'linvec':
        if sw in ('generic_implicit', 'explicit'):
            pc, pp = F.LinVec, {'A': _np(case['A']), 'g': case['g']}
        elif sw == 'imex_1st_order':
            pc, pp = F.LinVecIMEX, {'AI': _np(case['A']), 'AE': _np(case['A2']), 'gI': case['g'], 'gE': case['g2']}
        else:
            pc, pp = F.LinVec2Impl, {'A1': _np(case['A']), 'A2': _np(case['A2']), 'g1': case['g'], 'g2': case['g2']}
        desc['space_transfer_class'] = nocoarse
    elif pk == 'dahlquist':
        pc, pp = testequation0d, {'lambdas': np.array([complex(a, b) for a, b in case['lambdas']]), 'u0': 1.0}
        desc['space_transfer_class'] = nocoarse
    elif pk in ('heat', 'advection'):
        nv = case['nvars']  # list per level
        bc = case['bc']
        if pk == 'heat':
            pc = heatNd_unforced
            pp = {'nvars': nv if L > 1 else nv[0], 'nu': case['coeff'], 'freq': 2, 'bc': bc, 'order': case['fd_order'], 'stencil_type': 'center'}
        else:
            pc = advectionNd
            pp = {'nvars': nv if L > 1 else nv[0], 'c': case['coeff'], 'freq': 2, 'bc': 'periodic', 'order': case['fd_order'], 'stencil_type': 'center'}
        if len(set(nv)) > 1:
            desc['space_transfer_class'] = mesh_to_mesh
            desc['space_transfer_params'] = {'rorder': case['rorder'], 'iorder': case['iorder'], 'periodic': bc == 'periodic'}
        else:
            desc['space_transfer_class'] = nocoarse
    lp = {'dt': case['dt'], 'restol': case['restol'], 'residual_type': case['residual_type']}
    if L > 1:
        lp['nsweeps'] = case['nsweeps']
    else:
        lp['nsweeps'] = case['nsweeps'][0]
    desc.update(
        {
            'problem_class': pc, 'problem_params': pp, 'sweeper_class': SW[sw], 'sweeper_params': sp, 'level_params': lp,
            'step_params': {'maxiter': case['maxiter']}, 'convergence_controllers': {R.Observer: {}},
        }
    )  # fmt: skip
    if L > 1:
        desc['base_transfer_params'] = {'finter': case['finter']}
    else:
        desc.pop('space_transfer_class', None)
        desc.pop('space_transfer_params', None)
    return desc


def operators(prob, case, times):
    """dense A (full right-hand side operator) and forcing values at `times` for the fine-level problem"""
    pk, sw = case['problem'], case['sweeper']
    if pk == 'linvec':
        if sw in ('generic_implicit', 'explicit'):
            return prob.Amat, np.array([prob.forcing(t) for t in times])
        if sw == 'imex_1st_order':
            return prob.AIm + prob.AEm, np.array([prob.fI(t) + prob.fE(t) for t in times])
        return prob.A1m + prob.A2m, np.array([prob.f1(t) + prob.f2(t) for t in times])
    A = np.asarray(prob.A.todense())
    return A, np.zeros((len(times), A.shape[0]), dtype=A.dtype)


def prop(case, r):
    desc = build(case)
    P = case['num_procs']
    r.label(case['sweeper'], case['problem'], f'levels{case["levels"]}', f'procs{P}', case['residual_type'], case['quad_type'])
    try:
        ctrl = R.make_controller(P, desc, mssdc_jac=case['jac'], predict_type=case['predict'], all_to_done=case['all_to_done'])
    except (AssertionError, NotImplementedError) as e:
        r.discard(f'preconditioner rejected at construction: {type(e).__name__}')
        return
    except ControllerError as e:
        r.discard(f'controller rejected the description: {str(e)[:60]}')
        return
    L0 = ctrl.MS[0].levels[0]
    prob = L0.prob
    coll = L0.sweep.coll
    Q = np.asarray(coll.Qmat, float)[1:, 1:]
    w = np.asarray(coll.weights, float)
    nodes = np.asarray(coll.nodes, float)
    M = coll.num_nodes
    for attr in ('QI', 'QE', 'Q1', 'Q2'):
        if hasattr(L0.sweep, attr) and not np.isfinite(np.asarray(getattr(L0.sweep, attr))).all():
            r.discard('non-finite preconditioner (finding F10, judged in C02)')
            return
    u0 = prob.dtype_u(prob.init)
    u0[:] = np.resize(np.array(case['u0'], dtype=u0.dtype), u0.shape)
    R.Observer.reset(capture_nodes=True)
    dt = case['dt']
    nsteps = case['nblocks'] * P
    Tend = case['t0'] + dt * nsteps - 0.3 * dt
    try:
        uend, stats = ctrl.run(u0=u0, t0=case['t0'], Tend=Tend)
    except (FloatingPointError, OverflowError, np.linalg.LinAlgError) as e:
        r.discard(f'iteration diverged: {type(e).__name__}')
        return
    except ZeroDivisionError:
        if case['residual_type'].endswith('rel'):
            # relative residuals divide by |u[0]| of the step; an intermediate start value can be exactly zero by coincidence
            # (u' = -0.1 u, dt = 10, spread guess with collocation update: u0 + dt*lambda*u0 = 0): undefined norm, not a verdict about C01
            r.discard('relative residual undefined: a step start value is exactly zero')
            return
        raise
    blocks = list(R.Observer.blocks)
    steps = [s for blk in blocks for s in blk]
    if not steps:
        r.fail('no-steps', '')
        return
    if any(s['iter'] >= case['maxiter'] for s in steps) or any(not np.isfinite(s['uend_val']).all() for s in steps):
        r.discard('some step did not reach the residual tolerance within maxiter (property is conditional on convergence)')
        return
    n = int(np.prod(np.asarray(steps[0]['U'][0]).shape))
    baseline = case['levels'] == 1 and P == 1 and case.get('QI') == 'LU' and case['initial_guess'] == 'spread' and case['sweeper'] == 'generic_implicit'
    if len(steps) >= 2 and all(s['iter'] >= 2 for s in steps) and not baseline:
        r.nontrivial([case['sweeper'], case.get('QI'), case.get('QE'), case.get('Q2'), case['node_type'], case['quad_type'], case['num_nodes'], case['levels'], P, case['predict'], case['jac'],
                      case['nsweeps'], case['residual_type'], case['initial_guess'], case['coll_update'], case['problem'], case.get('nvars'), case['finter']])  # fmt: skip
    restol = case['restol']
    prev_end = None
    for idx, s in enumerate(steps):
        t = s['time']
        times = t + dt * nodes
        A, G = operators(prob, case, times)
        U = np.array([np.asarray(x).ravel() for x in s['U']])
        s0 = U[0]
        prev_end = np.asarray(s['uend_val']).ravel()
        # defect the level really holds
        Fm = U[1:] @ A.T + G
        res = s0[None, :] + dt * (Q @ Fm) - U[1:]
        rn = np.abs(res).max(axis=1)
        r_full = rn.max()
        rt = case['residual_type']
        measured = {'full_abs': r_full, 'last_abs': rn[-1], 'full_rel': r_full / max(np.abs(s0).max(), 1e-300), 'last_rel': rn[-1] / max(np.abs(s0).max(), 1e-300)}[rt]
        scale = max(1.0, np.abs(U).max())
        opnorm = 1.0 + dt * np.abs(Q).sum(axis=1).max() * np.abs(A).sum(axis=1).max()
        floor_r = 50 * np.finfo(float).eps * scale * opnorm * M
        r.close(measured, restol * (1 + 1e-9) + floor_r / (max(np.abs(s0).max(), 1e-300) if rt.endswith('rel') else 1.0), 'premise-residual',
                lambda: f'step {idx} (iter {s["iter"]}) stopped by residual but holds {rt} defect {measured:.3e} > restol {restol:.1e}')  # fmt: skip
        # dense collocation solve from the actual start value
        lhs = np.eye(M * n) - dt * np.kron(Q, A)
        inv = np.linalg.inv(lhs)
        kappa = np.abs(inv).sum(axis=1).max()
        if not np.isfinite(kappa) or kappa > 1e10:
            r.discard('collocation operator ill-conditioned')
            return
        Ustar = (inv @ (np.kron(np.ones(M), s0) + (dt * Q @ G).ravel())).reshape(M, n)
        if coll.right_is_node and not case['coll_update']:
            estar = Ustar[-1]
            bound = kappa * r_full
        else:
            Fstar = Ustar @ A.T + G
            estar = s0 + dt * (w @ Fstar)
            bound = dt * np.abs(w).sum() * np.abs(A).sum(axis=1).max() * kappa * r_full
        err = np.abs(prev_end - estar).max()
        tol = 1.01 * bound + 1e-12 * kappa * scale * opnorm
        r.close(err, tol, 'collocation-solution', lambda: f'step {idx} (iter {s["iter"]}) at t={t!r}: |uend - collocation solution| = {err:.3e}, bound kappa*defect = {bound:.3e} (defect {r_full:.2e}, restol {restol:.0e})')
        # and in terms of the tolerance itself (statement: "up to a small multiple of the tolerance") for the full residual types
        if rt == 'full_abs':
            r.close(err, 10 * kappa * max(1.0, dt * np.abs(w).sum() * np.abs(A).sum(axis=1).max()) * restol + 1e-12 * kappa * scale * opnorm, 'multiple-of-tolerance', f'step {idx} (iter {s["iter"]})')
    r.check(np.array_equal(np.asarray(uend).ravel(), prev_end), 'returned-value', 'run() did not return the last step\'s end value')


@st.composite
def cases(draw, max_procs=4, max_nodes=4):
    sweeper = draw(st.sampled_from(['generic_implicit', 'generic_implicit', 'imex_1st_order', 'explicit', 'multi_implicit']))
    problem = draw(st.sampled_from(['linvec', 'linvec', 'heat', 'advection', 'dahlquist']))
    if sweeper in ('imex_1st_order', 'multi_implicit'):
        problem = 'linvec'
    if sweeper == 'explicit' and problem in ('heat', 'advection'):
        problem = 'linvec'
    levels = draw(st.sampled_from([1, 1, 2, 2, 3]))
    P = draw(st.integers(1, max_procs))
    need_right = levels > 1 and P > 1
    ns = draw(S.node_sets(max_nodes=max_nodes, need_right=need_right))
    Mf = max(ns['num_nodes'], 2 if levels > 1 else 1)
    num_nodes = [Mf]
    for _ in range(levels - 1):
        lo = 2 if ns['quad_type'] in ('LOBATTO', 'RADAU-LEFT') else 1
        num_nodes.append(draw(st.integers(lo, num_nodes[-1])))
    case = {
        'sweeper': sweeper, 'problem': problem, 'levels': levels, 'num_procs': P, 'node_type': ns['node_type'], 'quad_type': ns['quad_type'], 'num_nodes': num_nodes,
        'QI': draw(st.sampled_from(S.QI_ROBUST + ['LU', 'IE'])), 'QE': draw(st.sampled_from(['EE', 'PIC'])), 'Q2': draw(st.sampled_from(['IE', 'LU', 'MIN-SR-S'])),
        'initial_guess': draw(st.sampled_from(['spread', 'spread', 'copy', 'zero', 'random'])), 'coll_update': draw(st.booleans()),
        'residual_type': draw(st.sampled_from(['full_abs', 'full_abs', 'last_abs', 'full_rel', 'last_rel'])), 'restol': draw(st.sampled_from([1e-8, 1e-9, 1e-10, 1e-11, 1e-12])),
        'maxiter': 150, 'jac': draw(st.booleans()), 'predict': draw(st.sampled_from([None, 'fine_only', 'pfasst_burnin'])) if levels > 1 else None,
        'all_to_done': draw(st.integers(0, 4)) == 0, 'finter': draw(st.booleans()), 'nblocks': draw(st.integers(1, 3)), 't0': draw(S.small_float(-1, 2)),
    }  # fmt: skip
    case['nsweeps'] = [draw(st.integers(1, 3)) for _ in range(levels)]
    if levels > 1:
        case['nsweeps'][-1] = 1
    if problem == 'linvec':
        n = draw(st.integers(1, 4))
        case['A'] = S.shape_matrix(draw(S.mat(n)), 'stable')
        case['A2'] = S.shape_matrix(draw(S.mat(n)), 'rot', scale=0.3)
        case['g'] = draw(S.forcing(n))
        case['g2'] = draw(S.forcing(n))
        case['u0'] = draw(S.vec(n))
        lam = float(np.abs(np.linalg.eigvals(np.array(case['A']) + (np.array(case['A2']) if sweeper in ('imex_1st_order', 'multi_implicit') else 0))).max())
        lamE = float(np.abs(np.linalg.eigvals(np.array(case['A2']))).max()) if sweeper == 'imex_1st_order' else 0.0
    elif problem == 'dahlquist':
        k = draw(st.integers(1, 4))
        case['lambdas'] = [[-abs(draw(S.small_float(-2, 2))) - 0.05, draw(S.small_float(-2, 2))] for _ in range(k)]
        case['u0'] = [1.0]
        lam = max(abs(complex(a, b)) for a, b in case['lambdas'])
        lamE = 0.0
    else:
        periodic = problem == 'advection' or draw(st.booleans())
        case['bc'] = 'periodic' if periodic else 'dirichlet-zero'
        kf = draw(st.integers(3, 4))
        nv = [2**kf if periodic else 2**kf - 1]
        for _ in range(levels - 1):
            coarsen = draw(st.booleans()) and nv[-1] >= 7
            nv.append((nv[-1] // 2 if periodic else (nv[-1] + 1) // 2 - 1) if coarsen else nv[-1])
        case['nvars'] = nv
        case['coeff'] = draw(st.sampled_from([0.05, 0.1, 0.3])) if problem == 'heat' else draw(st.sampled_from([0.5, 1.0, -0.7]))
        case['fd_order'] = draw(st.sampled_from([2, 4])) if min(nv) >= 7 else 2  # stencil (and its closures) must fit the coarsest grid
        nc_min = min(nv)
        fits = [p for p in (2, 4, 6) if (nc_min > p if periodic else nc_min + 2 >= p)] or [2]
        case['iorder'] = draw(st.sampled_from(fits))
        case['rorder'] = draw(st.sampled_from([p for p in fits if p <= 4] or [2]))
        case['u0'] = draw(S.vec(nv[0]))
        dx = 1.0 / (nv[0] + (0 if periodic else 1))
        lam = (4 * case['coeff'] / dx**2) if problem == 'heat' else 2 * abs(case['coeff']) / dx
        lamE = 0.0
    if case['residual_type'].endswith('rel'):
        # relative residuals divide by |u[0]| of the step: start values must be non-zero (implicit precondition);
        # with the 'zero' guess a later step of a block receives 0 as start value at iteration 0 -> ZeroDivisionError
        if max(abs(x) for x in case['u0']) < 0.05:
            case['u0'] = [1.0] + list(case['u0'][1:])
        if case['initial_guess'] == 'zero' and P > 1:
            case['initial_guess'] = 'spread'
    # step size in the contraction range of the chosen iteration
    if sweeper == 'explicit':
        z = draw(st.floats(0.02, 0.3))
    elif problem == 'advection':
        z = draw(st.floats(0.05, 0.6))
    elif sweeper in ('imex_1st_order', 'multi_implicit'):
        z = draw(st.floats(0.05, 1.0))
    else:
        z = draw(st.floats(0.05, 8.0))
    case['dt'] = float(f'{z / max(lam, 1e-3):.4g}')
    if lamE > 0:
        case['dt'] = float(f'{min(case["dt"], 0.3 / lamE):.4g}')
    return case


def known_match(fid, clause, case, failure):
    tag, msg = failure
    if fid == 'F3' and tag in ('premise-residual', 'collocation-solution', 'multiple-of-tolerance'):
        # the step was declared finished at iteration 0 without a single sweep (zero-sweep finish)
        return '(iter 0)' in msg
    return False


def clauses(tier):
    if tier == 'quick':
        return [Clause('converged-runs', prop, strategy=cases(4, 4), examples={'quick': 560, 'thorough': 560})]
    return [Clause('converged-runs', prop, strategy=cases(8, 6), examples={'quick': 560, 'thorough': 16000})]
