#!/venv/bin/python
import json, sys
props = {json.loads(l)['id']: json.loads(l) for l in open('/verif/properties.jsonl')}
T = """You are helping to evaluate a verification framework for the Python library pySDC (spectral deferred
correction time integrators). Your job is to play the role of a developer who introduces a subtle regression.

Your private scratch git worktree of the library is: {wt}   (work ONLY there; never touch /repo or /verif, and do not
read anything under /verif). Python with all dependencies: /venv/bin/python. To run code against YOUR worktree use
    cd {wt} && PYTHONPATH={wt} /venv/bin/python your_script.py
(check `import pySDC; print(pySDC.__file__)` points into your worktree). There is no network.

THE PROPERTY (semantic property of the library that is supposed to always hold):
  id: {id}
  title: {title}
  statement: {statement}
  quantified over: {quant}
  code it is anchored in: {files}

TASK: produce TWO independent, different source changes to the library (each a small patch to files under
{wt}/pySDC, not to tests) such that, for each change separately:
  1. the library still imports and the EXISTING test suite still passes (run the test files relevant to the code you
     touched, e.g. `cd {wt} && PYTHONPATH={wt} /venv/bin/python -m pytest -q -p no:cacheprovider -x pySDC/tests/<relevant files>`
     and anything under pySDC/projects/*/tests that exercises the touched code; the full suite takes ~50 min so pick the relevant
     files, but be honest and thorough about which ones are relevant; tests needing mpi4py/petsc/fenics/cupy are skipped here anyway);
  2. the property above is genuinely BROKEN by the change (a real behavioural violation of the statement, not a style change),
  3. the breakage needs something SPECIFIC to manifest: an unusual input or parameter combination, a particular multi-step sequence
     of operations, a particular convergence/restart pattern, a crash or fault at a particular point, a particular interleaving,
     or two cooperating sites that each look fine alone. NOT something ordinary use or the default configuration would expose at once.
     Realistic developer mistakes are best (off-by-one in a rarely taken branch, wrong index for one option value, stale state
     reused only in one mode, a swapped argument that matters only for asymmetric input, an optimisation that is wrong in a corner...).
  4. you provide a demonstration: a small standalone script demo_<n>.py that exits 0 (prints PASS) on the unmodified library and exits 1
     (prints FAIL with numbers) with your change applied. It must use only the library's public behaviour, and judge against an
     independent expectation (maths / reference computation), not against hard-coded output of the unmodified code where avoidable.

Deliverables, written to {out}/ :
  patch_1.diff, patch_2.diff   (each from `git -C {wt} diff` with ONLY that change applied; make sure each applies cleanly to a
                                pristine checkout with `git apply`; reset the worktree with `git -C {wt} checkout -- .` in between)
  demo_1.py, demo_2.py         (run as: PYTHONPATH=<tree> /venv/bin/python demo_n.py)
  meta_1.json, meta_2.json     with keys: property, summary (what was changed), needs (what specific condition makes it manifest),
                                tests_run (exact pytest commands you ran and their pass/fail counts), demo_result_unmodified, demo_result_modified
When finished leave the worktree clean (git checkout -- .) and reply with a short summary of both changes.
The two changes should exercise DIFFERENT parts/clauses of the property. Keep patches minimal (a few lines each).
"""
pid = sys.argv[1]
p = props[pid]
wt = f'/tmp/seed-{pid}'
print(T.format(wt=wt, out=wt + '.out', id=pid, title=p['title'], statement=p['statement'], quant=p['quantifier']['text'], files=', '.join(p['anchors']['files'])))
