"""C14 - statistics are a faithful, uniquely keyed record of the run.

(a) synthetic statistics dictionaries (random Entry keys incl. None fields and duplicates across num_restarts):
    filter_stats(**keys) == dictionary comprehension, sort_stats/get_sorted ascending and complete.
(b) generated runs (1-4 steps per block, 1-2 levels, scripted restarts at any slot, repeated restarts) with the shipped
    logging hooks enabled; ground truth from the block observer, a recorder hook and call-counting fixture problems:
    one record per accepted step and type at the true time, niter == iteration callbacks, work counters == calls made,
    recomputed=False leaves exactly the accepted-step records, restart count of first slots.
"""

import numpy as np
from hypothesis import strategies as st

from vlib.runner import Clause
from vlib import strats as S
from vlib import runs as R
from vlib import fixtures as F

from pySDC.core.hooks import Entry
from pySDC.helpers.stats_helper import filter_stats, sort_stats, get_sorted, get_list_of_types
from pySDC.implementations.convergence_controller_classes.basic_restarting import BasicRestartingNonMPI
from pySDC.implementations.hooks.log_solution import LogSolution
from pySDC.implementations.hooks.log_work import LogWork, LogSDCIterations
from pySDC.implementations.hooks.log_restarts import LogRestarts
from pySDC.implementations.hooks.log_step_size import LogStepSize

PROPERTY = 'C14'
LEVEL = 'exploration'
RULE = (
    'helpers clause: Hypothesis draws dictionaries of Entry keys (fields from small pools incl. None, duplicates across num_restarts) and filter keys; '
    'runs clause: num_procs 1..4, 1-2 levels, maxiter 1-2, scripted restart requests / dt proposals at (block attempt, slot) incl. repeated restarts of one step, '
    'with LogSolution, LogWork, LogRestarts, LogStepSize, LogSDCIterations enabled. Non-trivial = history with a restart at a slot > 0 or >= 2 restarts at one time '
    '(runs) / >= 6 records with a duplicate time (helpers).'
)
ASSUMPTIONS = [
    'accepted steps = steps before the first effective restart flag of each block (block observer)',
    'restart counts are asserted only for first slots (number of immediately preceding attempts at the same start time)',
]

TYPES = ['niter', 'residual_post_step', 'u', 'dt', 'restart', 'work_rhs']


# ----------------------------------------------------------------------------------------------- helpers
def prop_helpers(case, r):
    stats = {}
    for k, v in zip(case['keys'], case['values']):
        stats[Entry(**dict(zip(Entry._fields, k)))] = v
    if len(stats) >= 6 and len({k.time for k in stats}) < len(stats):
        r.nontrivial(case)
    flt = {f: v for f, v in case['filter'].items()}
    got = filter_stats(stats, **flt)
    exp = {k: v for k, v in stats.items() if all(getattr(k, f) == v2 for f, v2 in flt.items() if v2 is not None)}
    r.check(got == exp, 'filter-exact', lambda: f'filter {flt}: got {len(got)} entries, expected {len(exp)}')
    r.check(all(got[k] is stats[k] or got[k] == stats[k] for k in got), 'filter-values', '')
    # sorting: ascending in the chosen key, a permutation of the input
    sortable = {k: v for k, v in stats.items() if getattr(k, case['sortby']) is not None}
    srt = sort_stats(sortable, sortby=case['sortby'])
    keys = [a for a, b in srt]
    r.check(all(x <= y for x, y in zip(keys[:-1], keys[1:])), 'sort-ascending', f'{keys}')
    exp_pairs = sorted([(getattr(k, case['sortby']), repr(v)) for k, v in sortable.items()])
    r.check(sorted([(a, repr(b)) for a, b in srt]) == exp_pairs, 'sort-permutation', 'sorted output is not a permutation of the input')
    gs = get_sorted(sortable, sortby=case['sortby'], **flt)
    exp_gs = {k: v for k, v in sortable.items() if k in exp}
    r.check(sorted([(a, repr(b)) for a, b in gs]) == sorted([(getattr(k, case['sortby']), repr(v)) for k, v in exp_gs.items()]), 'get_sorted', '')
    r.check(sorted(get_list_of_types(stats), key=str) == sorted({k.type for k in stats}, key=str), 'list-of-types', '')


@st.composite
def helper_cases(draw):
    n = draw(st.integers(0, 14))
    pools = {
        'process': [None, -1, 0, 1, 2], 'process_sweeper': [None, 0], 'time': [None, 0.0, 0.1, 0.2, 0.30000000000000004, 0.3, 1.0], 'level': [None, -1, 0, 1],
        'iter': [None, -1, 0, 1, 2], 'sweep': [None, 0, 1], 'type': ['niter', 'u', 'dt', 'restart', '_recomputed', 'work_rhs'], 'num_restarts': [0, 0, 1, 2],
    }  # fmt: skip
    keys = [[draw(st.sampled_from(pools[f])) for f in Entry._fields] for _ in range(n)]
    values = [draw(st.one_of(st.integers(-3, 3), st.floats(-1, 1, allow_nan=False))) for _ in range(n)]
    flt = {}
    for f in draw(st.lists(st.sampled_from(list(Entry._fields)), max_size=3, unique=True)):
        flt[f] = draw(st.sampled_from(pools[f]))
    sortby = draw(st.sampled_from(['time', 'iter', 'level', 'process', 'num_restarts']))
    return {'keys': keys, 'values': values, 'filter': flt, 'sortby': sortby}


# ----------------------------------------------------------------------------------------------- runs
def prop_runs(case, r):
    P = case['num_procs']
    cc = {R.Observer: {}, BasicRestartingNonMPI: {'max_restarts': case['max_restarts'], 'crash_after_max_restarts': False}}
    if case['script']:
        cc[R.Inject] = {'script': case['script']}
    desc = R.scalar_description(lam=-1.0, dt=case['dt'], maxiter=case['maxiter'], levels=case['levels'], extra_cc=cc, num_nodes=2)
    attempts = []  # ground truth per step attempt from the recorder
    cur = {}

    def capture(name, step, lvl):
        slot = step.status.slot
        L = step.levels[0]
        if name == 'pre_step':
            a = {'slot': slot, 'time': L.time, 'pre_it': 0, 'rhs0': [l.prob.work_counters['rhs'].niter for l in step.levels], 'solve0': [l.prob.work_counters['solve'].niter for l in step.levels], 'rir': step.status.get('restarts_in_a_row')}
            cur[slot] = a
            attempts.append(a)
        elif slot in cur:
            a = cur[slot]
            if name == 'pre_iteration':
                a['pre_it'] += 1
            elif name == 'post_step':
                a['dt'] = L.dt
                a['iter'] = step.status.iter
                a['rhs1'] = [l.prob.work_counters['rhs'].niter for l in step.levels]
                a['solve1'] = [l.prob.work_counters['solve'].niter for l in step.levels]
                a['residual'] = L.status.residual

    F.Recorder.reset(capture=capture)
    hooks = [F.Recorder, LogSolution, LogWork, LogRestarts, LogStepSize, LogSDCIterations]
    ctrl = R.make_controller(P, desc, hooks=hooks, mssdc_jac=case['jac'])
    prob = ctrl.MS[0].levels[0].prob
    u0 = prob.dtype_u(prob.init)
    u0[:] = 1.0
    R.Observer.reset()
    uend, stats = ctrl.run(u0=u0, t0=case['t0'], Tend=case['t0'] + case['dt'] * P * case['nblocks'] - 0.03 * case['dt'])
    blocks = list(R.Observer.blocks)
    r.label(f'procs{P}', f'levels{case["levels"]}', 'scripted' if case['script'] else 'plain')
    # accepted steps and attempt bookkeeping from the observer
    accepted = []
    restart_times = []
    later_slot = False
    for b, blk in enumerate(blocks):
        flags = [s['restart'] for s in blk]
        fr = flags.index(True) if True in flags else len(blk)
        for s in blk[:fr]:
            accepted.append((b, s))
        if fr < len(blk):
            restart_times.append(blk[fr]['time'])
            later_slot = later_slot or fr > 0
    twice = len(restart_times) != len(set(restart_times))
    if later_slot or twice:
        r.nontrivial(case)
    if restart_times:
        r.label('with-restarts')
    # attempts per block in order: the recorder's attempts list is ordered by pre_step callbacks, block by block
    by_block = []
    idx = 0
    for blk in blocks:
        by_block.append(attempts[idx : idx + len(blk)])
        idx += len(blk)
    acc_attempts = []
    for b, blk in enumerate(blocks):
        flags = [s['restart'] for s in blk]
        fr = flags.index(True) if True in flags else len(blk)
        for i in range(fr):
            a = by_block[b][i]
            r.check(a['time'] == blk[i]['time'], 'harness-alignment', f'block {b} slot {i}')
            acc_attempts.append((b, i, a))
    discarded_times = set()
    for b, blk in enumerate(blocks):
        flags = [s['restart'] for s in blk]
        fr = flags.index(True) if True in flags else len(blk)
        for s in blk[fr:]:
            discarded_times.add(s['time'])
            discarded_times.add(s['time'] + s['dt'])
    # Reference model of the documented filter on *ideal* records (every attempt keyed with its true restart count):
    # per (time, type) only the records with the maximal restart count survive; then every time whose
    # maximal-count '_recomputed' record says "restarted" is dropped. Times at which even this ideal filtering does not
    # yield exactly the accepted steps are the F6 region (restart counters follow slots, not times).
    def ideal_bad(where):
        recs = {}  # time -> list of (rir, accepted?, order)
        recomputed = {}  # time -> (rir, order, flag)
        order = 0
        for b, blk in enumerate(blocks):
            flags = [s['restart'] for s in blk]
            fr = flags.index(True) if True in flags else len(blk)
            for i, s in enumerate(blk):
                order += 1
                rir = s['rir'] or 0
                t = s['time'] if where == 'start' else s['time'] + s['dt']
                recs.setdefault(t, []).append((rir, i < fr, order))
                for tt in (s['time'], s['time'] + s['dt']):
                    key = (tt, rir)
                    recomputed[key] = (order, bool(s['restart']))
        bad = set()
        alltimes = set(recs)
        for t in alltimes:
            lst = recs[t]
            mx = max(x[0] for x in lst)
            keep = [x for x in lst if x[0] == mx] if mx > 0 else list(lst)
            rr = [(k[1], v) for k, v in recomputed.items() if k[0] == t]
            mxr = max(x[0] for x in rr)
            flag = [v[1] for rir_, v in rr if rir_ == mxr][-1]
            if flag:
                keep = []
            n_acc_expected = sum(1 for x in lst if x[1])
            if [x[1] for x in keep].count(True) != n_acc_expected or any(not x[1] for x in keep):
                bad.add(t)
        return bad

    f6_region = {'start': ideal_bad('start'), 'end': ideal_bad('end')}
    acc_start = [a['time'] for _, _, a in acc_attempts]
    acc_end = [a['time'] + a['dt'] for _, _, a in acc_attempts]

    def times_of(type_, **kw):
        return [t for t, v in get_sorted(stats, type=type_, recomputed=False, sortby='time', **kw)]

    # (1) recomputed=False leaves exactly one record per accepted step and type
    clean = set()  # types for which (1) holds: only those are judged for values (duplicates would be ambiguous)
    # per-iteration records (written from post_iteration callbacks): one per accepted step and iteration performed
    acc_start_per_iter = [a['time'] for _, _, a in acc_attempts for _ in range(int(a['iter']))]
    for type_, where in [('niter', 'start'), ('residual_post_step', 'start'), ('dt', 'start'), ('restart', 'start'), ('u', 'end'), ('work_rhs', 'end'), ('work_solve', 'end'), ('residual_post_iteration', 'start')]:
        kw = {'level': 0} if type_ in ('work_rhs', 'work_solve', 'residual_post_step', 'dt', 'restart', 'u', 'k') else {}  # niter and residual_post_iteration are keyed with level -1
        got = times_of(type_, **kw)
        exp = sorted(acc_start if where == 'start' else acc_end)
        if type_ == 'residual_post_iteration':
            exp = sorted(acc_start_per_iter)
        if got == exp:
            clean.add(type_)
        if got != exp:
            # which times disagree, and do they coincide with times of discarded attempts (finding F6)?
            diff = set(got) ^ set(exp) | {t for t in set(got) if got.count(t) != exp.count(t)}
            coincide = bool(diff) and all(t in f6_region[where] for t in diff)
            r.fail(f'accepted-records:{type_}', f'coincide={coincide} {type_}: recomputed=False disagrees with the accepted steps at times {sorted(diff)[:6]} ({len(got)} records for {len(exp)} accepted steps); restarts at {restart_times[:6]}')
    # (2) values
    niter = dict(get_sorted(stats, type='niter', recomputed=False, sortby='time'))
    dts = dict(get_sorted(stats, type='dt', recomputed=False, sortby='time', level=0))
    wr = dict(get_sorted(stats, type='work_rhs', recomputed=False, sortby='time', level=0))
    ws = dict(get_sorted(stats, type='work_solve', recomputed=False, sortby='time', level=0))
    us = dict(get_sorted(stats, type='u', recomputed=False, sortby='time', level=0))
    ks = dict(get_sorted(stats, type='k', recomputed=False, sortby='time', level=0))
    res = dict(get_sorted(stats, type='residual_post_step', recomputed=False, sortby='time', level=0))
    for (b, i, a), (_, s) in zip(acc_attempts, accepted):
        t0, t1 = a['time'], a['time'] + a['dt']
        if 'niter' in clean and t0 in niter:
            r.check(niter[t0] == a['pre_it'] == a['iter'], 'niter-value', f'coincide={t0 in f6_region["start"]} t={t0!r}: logged {niter[t0]}, iteration callbacks {a["pre_it"]}')
        if 'dt' in clean and t0 in dts:
            r.check(dts[t0] == a['dt'], 'dt-value', f'coincide={t0 in f6_region["start"]} t={t0!r}: logged {dts[t0]!r}, actual {a["dt"]!r}')
        if 'residual_post_step' in clean and t0 in res:
            r.check(res[t0] == a['residual'], 'residual-value', f'coincide={t0 in f6_region["start"]} t={t0!r}')
        if 'work_rhs' in clean and t1 in wr:
            r.check(wr[t1] == a['rhs1'][0] - a['rhs0'][0], 'work-rhs-value', f'coincide={t1 in f6_region["end"]} t={t1!r}: logged {wr[t1]}, counted {a["rhs1"][0] - a["rhs0"][0]}')
        if 'work_solve' in clean and t1 in ws:
            r.check(ws[t1] == a['solve1'][0] - a['solve0'][0], 'work-solve-value', f'coincide={t1 in f6_region["end"]} t={t1!r}: logged {ws[t1]}, counted {a["solve1"][0] - a["solve0"][0]}')
        if 'u' in clean and t1 in us:
            r.check(np.asarray(us[t1]).tobytes() == s['uend'], 'solution-value', f'coincide={t1 in f6_region["end"]} t={t1!r}: logged solution differs from the step\'s end value')
    # (3) restart counts of first slots. The library carries the count along with the steps (a step restarted in block b-1, as the failing
    # step or as a follower of an earlier one, moves to slot i - first_restart with its count + 1; new steps start at 0). The statement speaks of
    # the step's "true" restart count, i.e. of the time interval: the two readings coincide unless a step-size change re-partitions the time axis
    # between the attempts (that divergence is the root cause of known finding F6) - such blocks are counted as ambiguous and not judged.
    raw_niter = [(k, v) for k, v in stats.items() if k.type == 'niter']
    slot_counts = []
    for b, blk in enumerate(blocks):
        if b == 0:
            slot_counts.append([0] * len(blk))
            continue
        prev = blocks[b - 1]
        pf = [s['restart'] for s in prev]
        pfr = pf.index(True) if True in pf else len(pf)
        moved = [c + 1 for c in slot_counts[b - 1][pfr:]]
        slot_counts.append((moved + [0] * len(blk))[: len(blk)])
    for b, blk in enumerate(blocks):
        t = blk[0]['time']
        c_time = 0
        j = b - 1
        while j >= 0:
            pf = [s['restart'] for s in blocks[j]]
            pfr = pf.index(True) if True in pf else len(pf)
            if any(s['time'] == t and s['dt'] == blk[0]['dt'] for s in blocks[j][pfr:]):
                c_time += 1
                j -= 1
            else:
                break
        c = slot_counts[b][0]
        if c != c_time:
            r.label('restart-count-ambiguous')
            continue
        keys = [k for k, v in raw_niter if k.time == t and k.num_restarts == c]
        r.check(len(keys) >= 1, 'restart-count-key', f'block {b}: no niter record at t={blk[0]["time"]!r} with num_restarts={c} (have {[k.num_restarts for k, v in raw_niter if k.time == blk[0]["time"]]})')
    # (3b) dropping recomputed values commutes with selecting a type: the untyped filter restricted to a type equals the typed filter
    untyped = filter_stats(stats, recomputed=False)
    for type_ in sorted({k.type for k in stats if k.type is not None and not str(k.type).startswith('_') and 'timing' not in str(k.type)}):
        typed = filter_stats(stats, type=type_, recomputed=False)
        sub = {k: v for k, v in untyped.items() if k.type == type_}
        r.check(sub.keys() == typed.keys(), 'untyped-filter', f'filter_stats(recomputed=False) keeps {len(sub)} records of type {type_}, filter_stats(type={type_!r}, recomputed=False) keeps {len(typed)}')
    # (4) filters on real stats behave like comprehensions
    for flt in ({'type': 'niter'}, {'type': 'u', 'level': 0}, {'process': 0}, {'num_restarts': 0, 'type': 'dt'}):
        got = filter_stats(stats, **flt)
        exp = {k: v for k, v in stats.items() if all(getattr(k, f) == v2 for f, v2 in flt.items())}
        r.check(got.keys() == exp.keys(), 'filter-exact-real', f'{flt}')
    srt = get_sorted(stats, type='niter', sortby='time')
    r.check(all(a[0] <= b[0] for a, b in zip(srt[:-1], srt[1:])), 'sort-ascending-real', '')


@st.composite
def run_cases(draw):
    P = draw(st.integers(1, 4))
    dt = draw(st.sampled_from([0.1, 0.25]))
    case = {
        'num_procs': P, 'dt': dt, 't0': draw(st.sampled_from([0.0, 1.0, -0.5])), 'nblocks': draw(st.integers(1, 4)), 'maxiter': draw(st.integers(1, 2)),
        'levels': draw(st.sampled_from([1, 1, 2])), 'jac': draw(st.booleans()), 'max_restarts': draw(st.integers(1, 4)),
    }  # fmt: skip
    script = {}
    if draw(st.integers(0, 3)) > 0:
        for _ in range(draw(st.integers(1, 6))):
            b = draw(st.integers(0, 8))
            s = draw(st.integers(0, P - 1))
            e = {'block': b, 'slot': s, 'restart': draw(st.integers(0, 3)) > 0, 'dt_new': None}
            if draw(st.booleans()):
                e['dt_new'] = float(dt * draw(st.sampled_from([0.5, 0.25, 2.0, 0.75])))
            script[(b, s)] = e
        if draw(st.booleans()):
            b0 = draw(st.integers(0, 2))
            for j in range(draw(st.integers(1, 4))):
                script[(b0 + j, 0)] = {'block': b0 + j, 'slot': 0, 'restart': True, 'dt_new': None}
    case['script'] = list(script.values())
    return case


def known_match(fid, clause, case, failure):
    tag, msg = failure
    if fid == 'F6' and clause == 'runs' and (tag.startswith('accepted-records:') or tag.endswith('-value')):
        # the disagreeing times all lie where even ideal records (true restart counts) cannot be filtered correctly
        return 'coincide=True' in msg
    return False


def clauses(tier):
    return [
        Clause('helpers', prop_helpers, strategy=helper_cases(), examples={'quick': 1500, 'thorough': 30000}),
        Clause('runs', prop_runs, strategy=run_cases(), examples={'quick': 600, 'thorough': 15000}),
    ]
