#!/bin/sh
# usage: tools/seedtests.sh <outdir> <n> <pytest paths...> : run repository tests on a scratch copy with the seeded patch applied
out=$1; n=$2; shift 2
d=$(mktemp -d /dev/shm/pysdc-st-XXXX)
cp -r /repo/pySDC /repo/pyproject.toml $d/ 2>/dev/null; mkdir -p $d/data
patch -p1 -s -d $d -i $out/patch_$n.diff || { echo "patch failed"; rm -rf $d; exit 2; }
/verif/tools/basecheck.py --root $d "$@"
rc=$?
rm -rf $d
exit $rc
