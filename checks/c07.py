"""C07 - the block protocol is safe for every convergence pattern of the parallel steps.

The scripted-residual sweeper assigns converged / not converged to every (step, iteration) pair of one block; all
assignments within bounds are enumerated for a set of controller configurations (levels x predictor x coupling x
all_to_done x nsweeps), random patterns beyond the bounds. Invariants are checked after *every* pfasst() call (the
instance's method is wrapped by the harness) and over the recorder's callback stream.
"""

import hashlib
import itertools
import re

import numpy as np
from hypothesis import strategies as st

from vlib.runner import Clause
from vlib import strats as S
from vlib import runs as R
from vlib import fixtures as F

from pySDC.core.errors import ControllerError, CommunicationError, UnlockError
from pySDC.helpers.stats_helper import get_sorted

PROPERTY = 'C07'
LEVEL = 'exploration'
RULE = (
    'enumerated clause: all 2^(P*(K+1)) assignments of converged/not-converged to (step, iteration) for P<=3,K<=2 and P<=2,K<=3 (quick) / P<=4,K<=3 and P<=3,K<=4 on one level, P*(K+1) <= 12 on 2-3 levels (thorough) '
    'x controller configurations (1-3 levels x predictor x Jacobi/Gauss-Seidel x all_to_done x nsweeps 1-2); sampled clause: random patterns for P<=8, K<=8, '
    'biased to back-to-front and alternating ones, optionally with injected force_done flags. Non-trivial = some later step scripted to converge strictly before an earlier one, or a step converging at iteration 0.'
)
ASSUMPTIONS = [
    'convergence patterns are imposed by overwriting the level-0 residual after the real computation (restol 0.5, scripted 0/1)',
    'state hashes cover u, f, uend of all levels and status.iter of a step',
]

GRAMMAR = re.compile(r'^S(pq)?(i(ab)+j)*E$')
CODE = {'pre_step': 'S', 'pre_predict': 'p', 'post_predict': 'q', 'pre_iteration': 'i', 'pre_sweep': 'a', 'post_sweep': 'b', 'post_iteration': 'j', 'post_step': 'E'}


def state_hash(S):
    h = hashlib.sha1()
    for L in S.levels:
        for lst in (L.u, L.f):
            for x in lst:
                h.update(b'N' if x is None else np.asarray(x).tobytes())
        h.update(b'N' if L.uend is None else np.asarray(L.uend).tobytes())
    h.update(str(S.status.iter).encode())
    return h.hexdigest()


def run_block(case):
    P, K = case['num_procs'], case['maxiter']
    levels = case['levels']
    table = {(s, k): float(v) for s, seq in enumerate(case['table']) for k, v in enumerate(seq)}
    cc = {}
    if case.get('force'):
        cc[ForceDone] = {'script': case['force']}
    desc = R.scalar_description(lam=-1.0, dt=0.1, maxiter=K, restol=0.5, num_nodes=3, levels=levels, sweeper=R.ScriptedImplicit, nsweeps=case['nsweeps'] if levels > 1 else case['nsweeps'][0], extra_cc=cc)
    events = []
    at_end = {}

    def capture(name, step, lvl):
        if name in CODE:
            events.append((name, step.status.slot, lvl, step.status.iter))
        if name == 'post_step':
            at_end[step.status.slot] = state_hash(step)

    F.Recorder.reset(capture=capture)
    ctrl = R.make_controller(P, desc, hooks=[F.Recorder], mssdc_jac=case['jac'], all_to_done=case['all_to_done'], predict_type=case['predict'])
    R.bind_scripted(ctrl, R.ScriptedImplicit, table, default=1.0)
    trace = {'at_end': at_end, 'calls': 0, 'viol': [], 'done_order': [], 'frozen': {}, 'sends': {}, 'consumed': set(), 'twice': [], 'tagbad': []}
    orig_pfasst = ctrl.pfasst
    orig_send, orig_recv = ctrl.send_full, ctrl.recv_full

    def pfasst(ms):
        res = orig_pfasst(ms)
        trace['calls'] += 1
        stages = {T.status.stage for T in ms if T.status.stage != 'DONE'}
        if len(stages) > 1:
            trace['viol'].append(('stages-differ', f'{sorted(stages)} after call {trace["calls"]}'))
        for T in ms:
            slot = T.status.slot
            if T.status.stage == 'DONE':
                hsh = state_hash(T)
                if slot not in trace['frozen']:
                    trace['frozen'][slot] = hsh
                    trace['done_order'].append(slot)
                elif trace['frozen'][slot] != hsh:
                    trace['viol'].append(('finished-step-changed', f'slot {slot} changed after it was DONE (call {trace["calls"]})'))
            elif slot in trace['frozen']:
                trace['viol'].append(('done-step-resumed', f'slot {slot} left DONE'))
        return res

    def send_full(T, level=None, add_to_stats=False):
        res = orig_send(T, level=level, add_to_stats=add_to_stats)
        if not T.status.last:
            trace['nsend'] = trace.get('nsend', 0) + 1
            sid = (T.status.slot, level, trace['nsend'])
            trace['sends'][(T.status.slot, level)] = (sid, (level, T.status.iter, T.status.slot))
        return res

    def recv_full(T, level=None, add_to_stats=False):
        if not T.status.prev_done and not T.status.first:
            key = (T.prev.status.slot, level)
            expected = (level, T.status.iter, T.prev.status.slot)
            if key not in trace['sends']:
                trace['tagbad'].append(f'slot {T.status.slot} receives on level {level} but slot {key[0]} never sent')
            else:
                sid, tag = trace['sends'][key]
                if tag != expected:
                    trace['tagbad'].append(f'slot {T.status.slot} expects {expected}, latest send has {tag}')
                if sid in trace['consumed']:
                    trace['twice'].append(f'send {sid} tag {tag} consumed again by slot {T.status.slot} (iter {T.status.iter})')
                trace['consumed'].add(sid)
        return orig_recv(T, level=level, add_to_stats=add_to_stats)

    ctrl.pfasst = pfasst
    ctrl.send_full = send_full
    ctrl.recv_full = recv_full
    prob = ctrl.MS[0].levels[0].prob
    u0 = prob.dtype_u(prob.init)
    u0[:] = 1.0
    err = None
    stats = None
    try:
        uend, stats = ctrl.run(u0=u0, t0=0.0, Tend=0.1 * P - 0.03)
    except (ControllerError, CommunicationError, UnlockError) as e:
        err = e
    return ctrl, events, trace, err, stats


from pySDC.core.convergence_controller import ConvergenceController


class ForceDone(ConvergenceController):
    """sets S.status.force_done at scripted (slot, iteration) positions (control order 50)"""

    def setup(self, controller, params, description, **kwargs):
        return {'control_order': 50, 'script': [], **super().setup(controller, params, description, **kwargs)}

    def check_iteration_status(self, controller, S, **kwargs):
        for slot, it in self.params.script:
            if S.status.slot == slot and S.status.iter == it:
                S.status.force_done = True


def prop(case, r):
    P, K = case['num_procs'], case['maxiter']
    ctrl, events, trace, err, stats = run_block(case)
    r.label(f'procs{P}', f'maxiter{K}', f'levels{case["levels"]}', 'jacobi' if case['jac'] else 'gauss-seidel', 'all_to_done' if case['all_to_done'] else 'individual', f'predict={case["predict"]}')
    tab = case['table']
    first_conv = [next((k for k, v in enumerate(seq) if v <= 0.5), K + 1) for seq in tab]
    if any(first_conv[j] < first_conv[i] for i in range(P) for j in range(i + 1, P)) or any(seq[0] <= 0.5 for seq in tab):
        r.nontrivial(case)
    if case.get('force'):
        r.label('force_done')
    if not r.check(err is None, 'protocol-error', f'{type(err).__name__}: {err}; table {tab}'):
        return
    for tag, msg in trace['viol'][:3]:
        r.fail(tag, f'{msg}; table {tab}')
    for slot, hsh in trace['at_end'].items():
        if slot in trace['frozen']:
            r.check(trace['frozen'][slot] == hsh, 'changed-after-end-callback', f'slot {slot}: values seen by the end callback differ from the finished step; table {tab}')
    r.check(trace['done_order'] == sorted(trace['done_order']), 'finish-order', f'steps finished in order {trace["done_order"]}; table {tab}')
    r.check(len(trace['done_order']) == P, 'not-all-finished', f'{trace["done_order"]}')
    for msg in trace['tagbad'][:2]:
        r.fail('transfer-mismatch', f'{msg}; table {tab}')
    for msg in trace['twice'][:2]:
        r.fail('send-consumed-twice', f'{msg}; table {tab}')
    bound = 6 + (K + 2) * 8 * case['levels']
    r.check(trace['calls'] <= bound, 'termination-bound', f'{trace["calls"]} pfasst calls > {bound}')
    # callback grammar per step
    per = {s: [] for s in range(P)}
    for name, slot, lvl, it in events:
        per[slot].append(CODE[name])
    niters = []
    for s in range(P):
        word = ''.join(per[s])
        r.check(GRAMMAR.match(word) is not None, 'callback-grammar', f'slot {s}: {word}; table {tab}')
        niters.append(word.count('i'))
        r.check(word.count('i') <= K, 'iterations-exceed-maxiter', f'slot {s}: {word.count("i")} > {K}')
        if case['levels'] > 1:
            r.check('pq' in word, 'predict-callbacks', f'slot {s}: {word}')
    if case['all_to_done']:
        r.check(len(set(niters)) == 1, 'all_to_done-unequal-niter', f'{niters}; table {tab}')
    if stats is not None:
        logged = [v for t, v in get_sorted(stats, type='niter', sortby='time')]
        r.check(logged == niters, 'logged-niter', f'logged {logged}, callbacks {niters}')


def configs(tier):
    out = []
    for levels in (1, 2, 3):
        for predict in ([None] if levels == 1 else [None, 'fine_only', 'pfasst_burnin']):
            for jac in (True, False):
                for atd in (False, True):
                    for ns in ([1], [2]) if levels == 1 else ([1] * levels, [2] + [1] * (levels - 1)):
                        if tier == 'quick' and levels == 3 and (ns[0] == 2 or atd and not jac):
                            continue
                        out.append({'levels': levels, 'predict': predict, 'jac': jac, 'all_to_done': atd, 'nsweeps': list(ns)})
    return out


def enum_cases(tier):
    """generator (the thorough tier has millions of patterns: never materialised)"""
    # (P, K): P steps, maxiter K -> 2^(P*(K+1)) patterns per configuration
    bounds = [(1, 3), (2, 2), (3, 1), (2, 3)] if tier == 'quick' else [(1, 4), (2, 3), (3, 3), (4, 2), (3, 4), (4, 3)]
    for cfg in configs(tier):
        for P, K in bounds:
            if tier == 'quick' and cfg['levels'] >= 2 and P * (K + 1) > 6:
                continue
            if tier == 'quick' and cfg['levels'] == 1 and (P, K) == (2, 3) and cfg['nsweeps'] == [2]:
                continue
            if tier == 'thorough' and cfg['levels'] >= 2 and P * (K + 1) > 12:
                continue
            for bits in itertools.product([0, 1], repeat=P * (K + 1)):
                table = [list(bits[s * (K + 1) : (s + 1) * (K + 1)]) for s in range(P)]
                yield dict(cfg, num_procs=P, maxiter=K, table=table)


@st.composite
def sampled(draw):
    P = draw(st.integers(2, 8))
    K = draw(st.integers(1, 8))
    levels = draw(st.sampled_from([1, 2, 3]))
    style = draw(st.sampled_from(['random', 'back-to-front', 'alternating', 'random']))
    table = []
    for s in range(P):
        if style == 'back-to-front':
            first = max(0, K - s - draw(st.integers(0, 1)))
            seq = [1 if k < first else 0 for k in range(K + 1)]
        elif style == 'alternating':
            seq = [(k + s) % 2 for k in range(K + 1)]
        else:
            seq = [draw(st.integers(0, 1)) for _ in range(K + 1)]
        table.append(seq)
    case = {
        'num_procs': P, 'maxiter': K, 'levels': levels, 'table': table, 'jac': draw(st.booleans()), 'all_to_done': draw(st.integers(0, 2)) == 0,
        'predict': draw(st.sampled_from([None, 'fine_only', 'pfasst_burnin'])) if levels > 1 else None,
        'nsweeps': [draw(st.integers(1, 2)) for _ in range(levels - 1)] + [1] if levels > 1 else [draw(st.integers(1, 2))],
    }  # fmt: skip
    if draw(st.integers(0, 3)) == 0:
        case['force'] = [[draw(st.integers(0, P - 1)), draw(st.integers(0, K))] for _ in range(draw(st.integers(1, 3)))]
    return case


def known_match(fid, clause, case, failure):
    return False


def clauses(tier):
    return [
        Clause('enumerated', prop, enumerate=enum_cases, exhaustive=True),
        Clause('sampled', prop, strategy=sampled(), examples={'quick': 600, 'thorough': 20000}),
    ]
