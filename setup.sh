#!/bin/sh
# offline setup: make sure hypothesis is importable in /venv (it is pre-installed; install from the wheelhouse if not)
/venv/bin/python -c "import hypothesis" 2>/dev/null || \
  /venv/bin/pip install --no-index --find-links /opt/veriftools/wheels hypothesis || exit 1
/venv/bin/python -c "import hypothesis, numpy, scipy, mpmath, sympy, dill, qmat; print('setup ok, hypothesis', hypothesis.__version__)"
