#!/venv/bin/python
"""Regenerates MANIFEST.json from tools/manifest_src.py (single source of truth for per-check texts)."""
import json, os, sys
sys.path.insert(0, os.path.dirname(os.path.abspath(__file__)))
from manifest_src import CHECKS, NOT_APPLICABLE, NOTES
here = os.path.dirname(os.path.dirname(os.path.abspath(__file__)))
checks = []
for pid, c in sorted(CHECKS.items()):
    checks.append({
        'property_id': pid,
        'quick_cmd': f'./check {pid} quick',
        'thorough_cmd': f'./check {pid} thorough',
        'evidence_file': f'evidence/{pid}.json',
        'replay_cmd_template': f'./check {pid} --replay {{path}}',
        'engine': 'pbt-runner',
        'level_claimed': {'category': c.get('level', 'exploration'), 'text': c['text'], 'design_ref': f'DESIGN.md section 4, {pid}'},
        'level_note': c['note'],
        'technique': c['technique'],
    })
claimed = set(CHECKS)
props = [json.loads(l)['id'] for l in open(os.path.join(here, 'properties.jsonl'))]
na = [{'property_id': p, 'reason': NOT_APPLICABLE.get(p, 'check not built yet in this round; see DESIGN.md section 4 for the planned generator and oracle')} for p in props if p not in claimed]
m = {
    'version': 1,
    'setup_cmd': './setup.sh',
    'hooks': {
        'guard': 'PYSDC_VERIF',
        'enable': 'no source hooks exist: checks observe through Hooks/ConvergenceController/sweeper subclasses passed in the description; PYSDC_VERIF is reserved and unused',
        'baseline_off_cmd': 'cd /repo && /venv/bin/python -m pytest -ra -q -p no:cacheprovider --timeout=900 --continue-on-collection-errors',
        'source_commits': [],
        'add_only': True,
    },
    'engines': [{'name': 'pbt-runner', 'path': 'vlib/runner.py', 'serves_properties': sorted(claimed),
                 'kind_free_text': 'Hypothesis 6.168 strategies sharded over 16 processes plus exhaustive enumeration of finite sub-domains; explicit oracles per property in checks/cNN.py'}],
    'checks': checks,
    'notes': NOTES,
    'not_applicable': na,
}
json.dump(m, open(os.path.join(here, 'MANIFEST.json'), 'w'), indent=1)
print('claimed', sorted(claimed), 'not claimed', [x['property_id'] for x in na])
