"""C05 - collocation nodes, weights and integration matrices are exact on every interval.

Oracle: 50-digit mpmath evaluation of the moment identities on the nodes the object reports
(read as exact binary floats), in the scaled variable s = (t - tleft)/h, plus affine covariance
against the reference object on [0, 1].
"""

import numpy as np
import mpmath as mp
from hypothesis import strategies as st

from vlib.runner import Clause

from pySDC.core.collocation import CollBase
from pySDC.core.errors import CollocationError

PROPERTY = 'C05'
LEVEL = 'exploration'
NODE_TYPES = ['EQUID', 'LEGENDRE', 'CHEBY-1', 'CHEBY-2', 'CHEBY-3', 'CHEBY-4']
QUAD_TYPES = ['GAUSS', 'LOBATTO', 'RADAU-LEFT', 'RADAU-RIGHT']
RULE = (
    'grid clause: exhaustive node_type x quad_type x num_nodes 1..16 on 5 fixed intervals; intervals clause: '
    'Hypothesis draws family, M and tleft in +-{0, 10^[-3,6]}, width 10^[-6,3] (plus raw floats). '
    'Non-trivial = interval != [0,1] and M >= 2 and the object was constructed; distinct = (family, M, tleft, tright).'
)
ASSUMPTIONS = [
    'moment identities are evaluated on the float nodes the object reports, in 50-digit arithmetic',
    'tolerance C*eps*Lebesgue(M)*(1+max|t|/h) models the conditioning of interpolatory quadrature w.r.t. node rounding',
    'known finding F2 (qmat end-point snapping) is matched from the affinely mapped reference nodes only',
]

mp.mp.dps = 50
EPS = np.finfo(float).eps
CTOL = 200.0  # calibrated: worst observed err/(eps*Lebesgue*(1+T/h)) on the tree is < 2 (see DESIGN)


def lebesgue(nodes01):
    x = np.asarray(nodes01, dtype=float)
    M = len(x)
    if M == 1:
        return 1.0
    t = np.linspace(0, 1, 40 * M + 1)
    L = np.zeros_like(t)
    for i in range(M):
        li = np.ones_like(t)
        for j in range(M):
            if j != i:
                li *= (t - x[j]) / (x[i] - x[j])
        L += np.abs(li)
    return float(max(1.0, L.max()))


def expected_rejected(M, qt):
    return M == 1 and qt in ('LOBATTO', 'RADAU-LEFT')


_REF = {}


def ref_coll(nt, qt, M):
    k = (nt, qt, M)
    if k not in _REF:
        _REF[k] = CollBase(M, 0, 1, node_type=nt, quad_type=qt)
    return _REF[k]


def snap_expected(case):
    """qmat snaps an end node onto the interval end when np.allclose says so (finding F2).
    Evaluated on the affinely mapped *reference* nodes, never on the object under test."""
    nt, qt, M = case['node_type'], case['quad_type'], case['M']
    tl, tr = case['tleft'], case['tright']
    if expected_rejected(M, qt):
        return False
    ref = ref_coll(nt, qt, M)
    h = tr - tl
    x0 = tl + h * ref.nodes[0]
    x1 = tl + h * ref.nodes[-1]
    left = qt in ('GAUSS', 'RADAU-RIGHT') and abs(x0 - tl) <= 2 * (1e-8 + 1e-5 * abs(x0))
    right = qt in ('GAUSS', 'RADAU-LEFT') and abs(x1 - tr) <= 2 * (1e-8 + 1e-5 * abs(x1))
    return bool(left or right)


def known_match(fid, clause, case, failure):
    if fid == 'F2':
        return snap_expected(case)
    return False


def prop(case, r):
    nt, qt, M = case['node_type'], case['quad_type'], case['M']
    tl, tr = float(case['tleft']), float(case['tright'])
    h = tr - tl
    r.label(f'{qt}', f'M={M}' if M <= 2 else ('M3-8' if M <= 8 else 'M9-16'))
    try:
        c = CollBase(M, tl, tr, node_type=nt, quad_type=qt)
    except CollocationError as e:
        r.check(expected_rejected(M, qt), 'unexpected-rejection', f'{e}')
        r.label('rejected')
        return
    if not r.check(not expected_rejected(M, qt), 'missing-rejection', 'M=1 with left end node accepted'):
        return
    T = max(abs(tl), abs(tr))
    if not (tl == 0.0 and tr == 1.0) and M >= 2:
        r.nontrivial([nt, qt, M, tl, tr])
    if tl < 0:
        r.label('negative')
    if T / h > 1e3:
        r.label('large-offset')
    if h < 1e-2:
        r.label('tiny-width')
    if snap_expected(case):
        r.label('F2-snap-region')

    ref = ref_coll(nt, qt, M)
    lam = lebesgue(ref.nodes)
    amp = 1.0 + T / h
    tol = CTOL * EPS * lam * amp  # relative to h (scaled variable)

    nodes = np.asarray(c.nodes, dtype=float)
    r.check(nodes.shape == (M,), 'shape', f'nodes shape {nodes.shape}')
    # ---- nodes: strictly increasing, inside, end points exactly when the type says so
    r.check(bool(np.all(np.diff(nodes) > 0)), 'nodes-increasing', f'{nodes}')
    r.check(bool(nodes[0] >= tl and nodes[-1] <= tr), 'nodes-inside', f'{nodes} not in [{tl},{tr}]')
    exp_left = qt in ('LOBATTO', 'RADAU-LEFT')
    exp_right = qt in ('LOBATTO', 'RADAU-RIGHT')
    r.check(c.left_is_node == exp_left and c.right_is_node == exp_right, 'flags', f'{c.left_is_node},{c.right_is_node}')
    r.check((nodes[0] == tl) == exp_left, 'left-end-node', f'node0={nodes[0]!r} tleft={tl!r} type={qt}')
    r.check((nodes[-1] == tr) == exp_right, 'right-end-node', f'nodeM={nodes[-1]!r} tright={tr!r} type={qt}')
    r.check(c.num_nodes == M and c.tleft == tl and c.tright == tr, 'attributes', '')
    r.check(int(c.order) == int(ref.order), 'order-attr', f'{c.order} vs {ref.order}')

    # ---- exactness in extended precision on the reported nodes
    mtl, mh = mp.mpf(tl), mp.mpf(tr) - mp.mpf(tl)
    s = [(mp.mpf(float(x)) - mtl) / mh for x in nodes]
    w = [mp.mpf(float(x)) / mh for x in c.weights]
    order = int(c.order)
    worst = mp.mpf(0)
    for d in range(order):
        val = mp.fsum(wi * si**d for wi, si in zip(w, s))
        worst = max(worst, abs(val - mp.mpf(1) / (d + 1)))
    r.close(worst, tol, 'weights-exact', f'{nt} {qt} M={M} [{tl},{tr}] order={order}')
    # first degree that must NOT be integrated exactly is not asserted (only >= order is promised)

    Q = np.asarray(c.Qmat, dtype=float)
    S = np.asarray(c.Smat, dtype=float)
    r.check(Q.shape == (M + 1, M + 1) and S.shape == (M + 1, M + 1), 'matrix-shape', f'{Q.shape} {S.shape}')
    r.check(not Q[0, :].any() and not Q[:, 0].any(), 'Q-zero-padding', 'first row/column of Qmat not zero')
    r.check(not S[0, :].any() and not S[:, 0].any(), 'S-zero-padding', 'first row/column of Smat not zero')
    worstQ = mp.mpf(0)
    worstS = mp.mpf(0)
    for d in range(M):
        prev = mp.mpf(0)
        for m in range(M):
            exact = s[m] ** (d + 1) / (d + 1)
            vq = mp.fsum(mp.mpf(float(Q[m + 1, j + 1])) / mh * s[j] ** d for j in range(M))
            vs = mp.fsum(mp.mpf(float(S[m + 1, j + 1])) / mh * s[j] ** d for j in range(M))
            worstQ = max(worstQ, abs(vq - exact))
            worstS = max(worstS, abs(vs - (exact - prev)))
            prev = exact
    r.close(worstQ, tol, 'Q-exact', f'{nt} {qt} M={M} [{tl},{tr}]')
    r.close(worstS, tol, 'S-exact', f'{nt} {qt} M={M} [{tl},{tr}]')
    # cumulative sums / differences of one another (pure float identities: few ulp of the row scale)
    scale = max(1e-300, np.abs(Q).max())
    r.close(np.abs(np.cumsum(S, axis=0) - Q).max(), 8 * M * EPS * scale, 'Q=cumsum(S)')
    r.close(np.abs(np.diff(Q, axis=0) - S[1:]).max(), 8 * M * EPS * scale, 'S=diff(Q)')
    # delta_m
    dm = np.asarray(c.delta_m, dtype=float)
    expd = np.diff(np.concatenate([[tl], nodes]))
    r.close(np.abs(dm - expd).max() / h, 4 * EPS * amp, 'delta_m')

    # ---- affine covariance against the reference object on [0,1]
    r.close(np.abs(nodes - (tl + h * ref.nodes)).max() / h, 8 * EPS * amp, 'affine-nodes', f'{nt} {qt} M={M} [{tl},{tr}]')
    r.close(np.abs(c.weights / h - ref.weights).max(), tol, 'affine-weights')
    r.close(np.abs(Q / h - ref.Qmat).max(), tol, 'affine-Q')
    r.close(np.abs(S / h - ref.Smat).max(), tol, 'affine-S')


FIXED_INTERVALS = [(0.0, 1.0), (-1.0, 1.0), (2.5, 4.0), (-7.25, -7.0), (0.0, 1e-3)]


def grid(tier):
    out = []
    for nt in NODE_TYPES:
        for qt in QUAD_TYPES:
            for M in range(1, 17):
                for tl, tr in FIXED_INTERVALS:
                    out.append({'node_type': nt, 'quad_type': qt, 'M': M, 'tleft': tl, 'tright': tr})
    return out


@st.composite
def interval_cases(draw):
    nt = draw(st.sampled_from(NODE_TYPES))
    qt = draw(st.sampled_from(QUAD_TYPES))
    M = draw(st.integers(1, 16))
    mode = draw(st.integers(0, 9))
    if mode == 0:
        tl = draw(st.floats(-1e6, 1e6, allow_nan=False, allow_infinity=False))
        tr = draw(st.floats(-1e6, 1e6, allow_nan=False, allow_infinity=False))
        if tl > tr:
            tl, tr = tr, tl
        if not (tr - tl) > 1e-9 * max(1.0, abs(tl), abs(tr)):
            tr = tl + 1.0
    else:
        sign = draw(st.sampled_from([-1.0, 1.0]))
        zero = draw(st.integers(0, 5)) == 0
        a = draw(st.floats(-3, 6))
        b = draw(st.floats(-6, 3))
        tl = 0.0 if zero else sign * 10.0**a
        tr = tl + 10.0**b
        if not tr > tl:  # width below the resolution of tl: widen to 4 ulp-ish
            tr = tl + abs(tl) * 1e-9 + 1e-9
    # keep the resolvable regime: at least ~2^20 floats across the interval, otherwise nodes collapse
    if (tr - tl) < 1e-9 * max(abs(tl), abs(tr)):
        tr = tl + 1e-9 * max(abs(tl), abs(tr), 1.0)
    return {'node_type': nt, 'quad_type': qt, 'M': M, 'tleft': float(tl), 'tright': float(tr)}


def clauses(tier):
    return [
        Clause('grid', prop, enumerate=grid, exhaustive=True),
        Clause('intervals', prop, strategy=interval_cases(), examples={'quick': 1600, 'thorough': 40000}),
    ]
