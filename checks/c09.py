"""C09 - restarts and step-size control keep their promises for every failure sequence.

(a) scripted histories: restart requests and raw step-size proposals are injected at generated (block, slot) positions
    into the real BasicRestarting / StepSizeLimiter / SpreadStepSizes machinery; invariants derived from the statement are
    checked over observer snapshots with two independent retry counters that bracket the readings of "retried in a row"
    (own failures of the first step only / every consecutive attempt in which the step was recomputed).
(b) real adaptive runs (embedded, RK, polynomial, extrapolation estimators): the step size of the next block is recomputed
    from the observed estimate with beta*dt*(tol/err)^(1/order), slope limits, absolute limits; accepted steps satisfy the
    tolerance unless the retry budget was exhausted; rejected steps are retried with a smaller step unless a lower limit binds.
"""

import numpy as np
from hypothesis import strategies as st

from vlib.runner import Clause
from vlib import strats as S
from vlib import runs as R
from vlib import fixtures as F

from pySDC.core.errors import ConvergenceError
from pySDC.implementations.convergence_controller_classes.basic_restarting import BasicRestartingNonMPI
from pySDC.implementations.convergence_controller_classes.step_size_limiter import StepSizeLimiter
from pySDC.implementations.convergence_controller_classes.adaptivity import (
    Adaptivity,
    AdaptivityRK,
    AdaptivityPolynomialError,
    AdaptivityExtrapolationWithinQ,
)
from pySDC.implementations.problem_classes.Van_der_Pol_implicit import vanderpol
from pySDC.implementations.problem_classes.Lorenz import LorenzAttractor
from pySDC.implementations.problem_classes.LogisticEquation import logistics_equation
from pySDC.implementations.sweeper_classes.generic_implicit import generic_implicit
from pySDC.implementations.sweeper_classes import Runge_Kutta as RKmod

PROPERTY = 'C09'
LEVEL = 'exploration'
RULE = (
    'scripted clause: Hypothesis draws num_procs 1..4, max_restarts 0..5, crash/move-on, restart_from_first_step, limiter settings '
    '(dt_min/max, slope min/max, dt_rel_min_slope) and a script of restart requests / raw dt proposals at (block attempt, slot). '
    'adaptive clause: embedded / RK / polynomial / extrapolation adaptivity on van der Pol (stiff and non-stiff), Lorenz, logistic and Dahlquist '
    'problems with random tolerance, beta, limiters, num_procs 1..3. '
    'Non-trivial = >= 2 restarts of which one at a slot > 0 or the same step restarted twice in a row (scripted); >= 1 rejected and >= 5 accepted steps (adaptive).'
)
ASSUMPTIONS = [
    'retry counters (independent of the library counter): lo = number of immediately preceding block attempts whose restart point is the start of the current block (own failures); '
    'hi = consecutive attempts in which the step now first in the block was recomputed, also as a follower of an earlier failing step (what the MPI flavour counts). '
    'The statement does not say which of the two is meant: exceeding the budget is judged with lo, giving up / raising too early with hi',
    'a request that is not honoured is legal only when the first step of that block has exhausted its retry budget (lenient reading that matches move-on semantics)',
    'Tend clipping of the spreader is not part of the statement: a smaller-than-proposed step is accepted only if the proposed one would overshoot Tend',
]
EPS = np.finfo(float).eps


def limit(dt_prop, dt_old, lim, restarted):
    """slope limits first (control order 91), then absolute limits (92) - as the statement says"""
    x = dt_prop
    smin, smax, rel = lim.get('dt_slope_min', 0), lim.get('dt_slope_max', np.inf), lim.get('dt_rel_min_slope', 0)
    if x / dt_old < smin:
        x = dt_old * smin
    elif x / dt_old > smax:
        x = dt_old * smax
    elif abs(x / dt_old - 1) < rel and not restarted:
        x = dt_old
    if x < lim.get('dt_min', 0):
        x = lim['dt_min']
    elif x > lim.get('dt_max', np.inf):
        x = lim['dt_max']
    return x


def analyse_blocks(blocks):
    """-> per block: index of first effective restart (or n), start time"""
    out = []
    for blk in blocks:
        flags = [s['restart'] for s in blk]
        fr = flags.index(True) if True in flags else len(blk)
        out.append({'first_restart': fr, 'n': len(blk), 'start': blk[0]['time'], 'restart_time': blk[fr]['time'] if fr < len(blk) else None})
    return out


def retry_counts(info):
    """c_b = number of immediately preceding attempts whose restart point equals the start of block b"""
    counts = []
    for b, I in enumerate(info):
        c = 0
        j = b - 1
        while j >= 0 and info[j]['restart_time'] is not None and info[j]['restart_time'] == I['start']:
            c += 1
            j -= 1
        counts.append(c)
    return counts


def retry_counts_hi(info):
    """per-step count carried along with the steps: a step restarted in block b-1 (own request or follower of an earlier restarted step)
    moves to slot i - first_restart of block b with its count + 1; steps entering the block are new (0)."""
    hi = []
    cur = []
    for b, I in enumerate(info):
        if b == 0:
            cur = [0] * I['n']
        else:
            P = info[b - 1]
            moved = [c + 1 for c in cur[P['first_restart'] :]] if P['restart_time'] is not None else []
            cur = (moved + [0] * I['n'])[: I['n']]
        hi.append(cur[0] if cur else 0)
    return hi


# ----------------------------------------------------------------------------------------------- scripted
def prop_scripted(case, r):
    P = case['num_procs']
    lim = case['limits']
    cc = {
        R.Observer: {},
        R.Inject: {'script': case['script']},
        BasicRestartingNonMPI: {'max_restarts': case['max_restarts'], 'crash_after_max_restarts': case['crash'], 'restart_from_first_step': case['from_first']},
    }
    if lim:
        cc[StepSizeLimiter] = dict(lim)
    desc = R.scalar_description(lam=-1.0, dt=case['dt'], maxiter=case['maxiter'], extra_cc=cc, num_nodes=2)
    ctrl = R.make_controller(P, desc, mssdc_jac=case['jac'])
    prob = ctrl.MS[0].levels[0].prob
    u0 = prob.dtype_u(prob.init)
    u0[:] = 1.0
    R.Observer.reset()
    raised = None
    try:
        uend, stats = ctrl.run(u0=u0, t0=0.0, Tend=case['Tend'])
    except ConvergenceError as e:
        raised = e
    blocks = list(R.Observer.blocks)
    r.label(f'procs{P}', 'crash' if case['crash'] else 'move-on', 'from-first' if case['from_first'] else 'from-restarted', f'maxrestarts{min(case["max_restarts"], 3)}')
    if lim:
        r.label('limiter')
    info = analyse_blocks(blocks)
    counts = retry_counts(info)
    counts_hi = retry_counts_hi(info)
    script = {(e['block'], e['slot']): e for e in case['script']}
    n_restarts = sum(1 for I in info if I['restart_time'] is not None)
    restart_at_later_slot = any(I['restart_time'] is not None and I['first_restart'] > 0 for I in info)
    twice = any(c >= 1 and I['restart_time'] is not None and I['first_restart'] == 0 for c, I in zip(counts, info))
    if (n_restarts >= 2 and restart_at_later_slot) or twice:
        r.nontrivial(case)
    if n_restarts:
        r.label('restarts')

    for b, (blk, I) in enumerate(zip(blocks, info)):
        flags = [s['restart'] for s in blk]
        # one step size per block, on every level
        r.check(len({tuple(s['dts']) for s in blk}) == 1, 'block-dt', f'block {b}: {[s["dts"] for s in blk]}')
        r.check(all(flags[I['first_restart'] :]), 'restart-suffix', f'block {b}: {flags}')
        reqs = [i for i in range(I['n']) if script.get((b, i), {}).get('restart')]
        exhausted = counts_hi[b] >= case['max_restarts']
        if reqs:
            first_req = 0 if case['from_first'] else min(reqs)
            if not exhausted:
                r.check(I['first_restart'] <= first_req, 'request-ignored', f'block {b}: request at slot {min(reqs)} but steps up to {I["first_restart"]} were kept (retry count {counts_hi[b]} < {case["max_restarts"]})')
            if not exhausted and not case['from_first']:
                r.check(I['first_restart'] == first_req, 'kept-steps', f'block {b}: first request at slot {first_req}, first restarted slot {I["first_restart"]}')
            if not exhausted and case['from_first']:
                r.check(I['first_restart'] == 0, 'restart-from-first', f'block {b}: restarted from slot {I["first_restart"]}')
        else:
            r.check(I['first_restart'] == I['n'], 'spurious-restart', f'block {b}: restart at slot {I["first_restart"]} without a request')
        # retry budget: an effective restart of the first step needs remaining budget
        if I['first_restart'] == 0:
            r.check(counts[b] < case['max_restarts'], 'budget-exceeded', f'block {b}: first step restarted again after {counts[b]} retries in a row (max {case["max_restarts"]})')
        # continuation
        if b + 1 < len(blocks):
            nxt = blocks[b + 1][0]
            if I['restart_time'] is not None:
                rs = blk[I['first_restart']]
                r.check(nxt['time'] == rs['time'] and nxt['u0'] == rs['u0'], 'restart-continuation', f'block {b + 1} does not start at the restarted step (time {nxt["time"]!r} vs {rs["time"]!r})')
            else:
                last = blk[-1]
                r.check(abs(nxt['time'] - (last['time'] + last['dt'])) <= 4 * R.ulp(max(abs(nxt['time']), case['Tend'])) and nxt['u0'] == last['uend'], 'advance-continuation', f'block {b + 1}')
            # progress: time advances or this was a retry
            r.check(nxt['time'] > blk[0]['time'] or (I['restart_time'] is not None and I['first_restart'] == 0), 'no-progress', f'block {b}->{b + 1}')
            # step size of the next block
            src = blk[I['first_restart']] if I['restart_time'] is not None else blk[-1]
            if case['from_first'] and I['restart_time'] is not None:
                src = None  # spreads the smallest proposal of the restarted steps: not asserted in this mode
            if src is not None:
                e = script.get((b, src['slot']))
                prop_dt = e['dt_new'] if (e and e.get('dt_new') is not None) else None
                old = src['dt']
                exp = old if prop_dt is None else limit(prop_dt, old, lim or {}, I['restart_time'] is not None)
                got = nxt['dt']
                requested = bool(e and e.get('restart'))
                cands = [exp]
                if prop_dt is not None and requested != (I['restart_time'] is not None):
                    # request pending while the limiters ran, then cancelled (budget exhausted): both variants accepted
                    cands.append(limit(prop_dt, old, lim or {}, requested))

                def fits(c):
                    if abs(got - c) <= 1e-12 * c:
                        return True
                    # the spreader may shorten steps to reach Tend (not part of the statement): legal only near the end
                    overshoot = nxt['time'] + (P + 1) * max(c, old) > case['Tend'] - 1e-12
                    return got < c and overshoot and got >= min(case['dt'], c) * (1 - 1e-12)

                r.check(any(fits(c) for c in cands), 'next-dt', f'block {b + 1}: dt {got!r}, expected {cands!r} (proposal {prop_dt!r}, old {old!r}, limits {lim})')
    # convergence error exactly when a first step asks again with exhausted budget and crashing is configured
    if raised is not None:
        b = len(blocks)  # the block that raised was not snapshotted
        r.check(case['crash'], 'unexpected-error', f'ConvergenceError although crash_after_max_restarts=False: {raised}')
        # reconstruct the count for the raising block
        c = 0
        if info and info[-1]['restart_time'] is not None:
            ghost = dict(info[-1], n=max(1, info[-1]['n'] - info[-1]['first_restart']), restart_time=None)
            c = retry_counts_hi(info + [ghost])[-1]
        r.check(c >= case['max_restarts'], 'error-too-early', f'ConvergenceError after only {c} retries in a row (max {case["max_restarts"]})')
        req0 = script.get((b, 0), {}).get('restart')
        r.check(bool(req0), 'error-without-request', f'ConvergenceError in block {b} but its first step has no restart request')
        r.label('raised')
    else:
        # if crashing is configured, an exhausted first step that requested a restart must have raised
        if case['crash']:
            for b, I in enumerate(info):
                if script.get((b, 0), {}).get('restart') and counts[b] >= case['max_restarts']:
                    r.fail('missing-error', f'block {b}: first step requested a restart with {counts[b]} retries in a row (max {case["max_restarts"]}) and no ConvergenceError was raised')
                    break
        if blocks:
            last = blocks[-1][-1]
            r.check(last['time'] + last['dt'] >= case['Tend'] - 1e-9, 'stopped-early', f'{last["time"] + last["dt"]!r} < Tend')


@st.composite
def scripted_cases(draw):
    P = draw(st.integers(1, 4))
    dt = draw(st.sampled_from([0.1, 0.25, 0.2]))
    nblocks = draw(st.integers(2, 6))
    case = {
        'num_procs': P, 'dt': dt, 'Tend': float(dt * P * nblocks + draw(st.sampled_from([0.0, 0.03, -0.04]))), 'maxiter': draw(st.integers(1, 2)),
        'jac': draw(st.booleans()), 'max_restarts': draw(st.integers(0, 5)), 'crash': draw(st.booleans()), 'from_first': draw(st.integers(0, 3)) == 0,
    }  # fmt: skip
    lim = {}
    if draw(st.booleans()):
        if draw(st.booleans()):
            lim['dt_min'] = draw(st.sampled_from([0.01, 0.05, 0.1]))
        if draw(st.booleans()):
            lim['dt_max'] = draw(st.sampled_from([0.3, 0.5, 0.15]))
        if draw(st.booleans()):
            lim['dt_slope_min'] = draw(st.sampled_from([0.5, 0.8, 0.25]))
        if draw(st.booleans()):
            lim['dt_slope_max'] = draw(st.sampled_from([1.5, 2.0, 1.1]))
        if draw(st.booleans()):
            lim['dt_rel_min_slope'] = draw(st.sampled_from([0.05, 0.2, 0.3]))
    case['limits'] = lim
    n = draw(st.integers(1, 10))
    script = {}
    for _ in range(n):
        b = draw(st.integers(0, 10))
        s = draw(st.integers(0, P - 1))
        e = {'block': b, 'slot': s, 'restart': draw(st.integers(0, 3)) > 0, 'dt_new': None}
        if draw(st.booleans()):
            e['dt_new'] = float(dt * draw(st.sampled_from([0.5, 0.25, 2.0, 0.75, 1.5, 0.9, 1.1, 0.1, 4.0])))
        script[(b, s)] = e
    # bias: repeated failure of the same step (same slot 0 in consecutive attempts)
    if draw(st.booleans()):
        b0 = draw(st.integers(0, 3))
        for j in range(draw(st.integers(1, 7))):
            script[(b0 + j, 0)] = {'block': b0 + j, 'slot': 0, 'restart': True, 'dt_new': None}
    case['script'] = list(script.values())
    return case


# ----------------------------------------------------------------------------------------------- real adaptive runs
PROBLEMS = {
    'vdp': lambda p: (vanderpol, {'mu': p['mu'], 'u0': np.array([2.0, 0.0]), 'newton_tol': 1e-11, 'newton_maxiter': 50, 'stop_at_nan': False, 'relative_tolerance': False} if False else {'mu': p['mu'], 'u0': np.array([2.0, 0.0]), 'newton_tol': 1e-11, 'newton_maxiter': 50}),
    'lorenz': lambda p: (LorenzAttractor, {'newton_tol': 1e-11, 'newton_maxiter': 50}),
    'logistic': lambda p: (logistics_equation, {'u0': 0.3, 'lam': p['lam']}),
    'dahlquist': lambda p: (F.LinVec, {'A': np.array([[p['lamd']]]), 'g': None}),
}
EMBEDDED_RK = [name for name in dir(RKmod) if isinstance(getattr(RKmod, name), type) and issubclass(getattr(RKmod, name), RKmod.RungeKutta) and not issubclass(getattr(RKmod, name), RKmod.RungeKuttaIMEX) and getattr(RKmod, name).matrix is not None and getattr(RKmod, name).is_embedded()]


def prop_adaptive(case, r):
    flavor = case['flavor']
    pc, pp = PROBLEMS[case['problem']](case)
    lim = case['limits']
    P = case['num_procs']
    apar = {'e_tol': case['e_tol'], 'beta': case['beta'], **lim}
    cc = {R.Observer: {}, BasicRestartingNonMPI: {'max_restarts': case['max_restarts'], 'crash_after_max_restarts': False}}
    level_params = {'dt': case['dt']}
    step_params = {'maxiter': case['maxiter']}
    sweeper_params = {'num_nodes': case['num_nodes'], 'quad_type': 'RADAU-RIGHT', 'QI': 'IE'}
    sweeper = generic_implicit
    avoid = bool(case.get('avoid_restarts')) and flavor == 'embedded'
    if flavor == 'embedded':
        cc[Adaptivity] = dict(apar, avoid_restarts=True) if avoid else apar
        order = case['maxiter']
    elif flavor == 'rk':
        sweeper = getattr(RKmod, case['rk'])
        sweeper_params = {}
        step_params = {'maxiter': 1}
        order = sweeper.get_update_order()
        if case.get('update_order_shift'):
            # the user may configure the order the controller assumes (parameter update_order): the formula must use the configured value
            order = max(1, order + case['update_order_shift'])
            apar = dict(apar, update_order=order)
        cc[AdaptivityRK] = apar
    elif flavor == 'polynomial':
        level_params['restol'] = 1e-11
        step_params = {'maxiter': 60}
        cc[AdaptivityPolynomialError] = {**apar, 'interpolate_between_restarts': case['interp']}
        sweeper_params['QI'] = 'LU'
        order = None
    else:
        level_params['restol'] = 1e-11
        step_params = {'maxiter': 60}
        cc[AdaptivityExtrapolationWithinQ] = {**apar, 'interpolate_between_restarts': case['interp']}
        sweeper_params['QI'] = 'LU'
        order = case['num_nodes']
    desc = {
        'problem_class': pc, 'problem_params': pp, 'sweeper_class': sweeper, 'sweeper_params': sweeper_params,
        'level_params': level_params, 'step_params': step_params, 'convergence_controllers': cc,
    }  # fmt: skip
    ctrl = R.make_controller(P, desc, mssdc_jac=False)
    prob = ctrl.MS[0].levels[0].prob
    u0 = prob.u_exact(0.0) if case['problem'] != 'dahlquist' else prob.u_exact(0.0)
    R.Observer.reset(max_blocks=120)
    try:
        uend, stats = ctrl.run(u0=u0, t0=0.0, Tend=case['Tend'])
    except R.StopRun:
        r.label('cost-bounded')
    except Exception as e:
        from pySDC.core.errors import ProblemError

        if isinstance(e, (ProblemError, ConvergenceError)) or 'nan' in str(e).lower():
            r.discard(f'run aborted by the problem/solver: {type(e).__name__}')
            return
        raise
    blocks = list(R.Observer.blocks)
    info = analyse_blocks(blocks)
    counts = retry_counts_hi(info)
    r.label(flavor, case['problem'], f'procs{P}')
    if lim:
        r.label('limiter')
    if avoid:
        r.label('avoid-restarts')
    if case.get('update_order_shift') and flavor == 'rk':
        r.label('configured-update-order')
    tol = case['e_tol']
    accepted = rejected = 0
    est_key = 'e_extrap' if flavor == 'extrapolation' else 'e_est'
    conv_based = flavor in ('polynomial', 'extrapolation')
    for b, (blk, I) in enumerate(zip(blocks, info)):
        r.check(len({tuple(s['dts']) for s in blk}) == 1, 'block-dt', f'block {b}')
        exhausted = counts[b] >= case['max_restarts']
        for i, s in enumerate(blk[: I['first_restart']]):
            accepted += 1
            e = s[est_key]
            if e is None or not np.isfinite(e):
                continue
            if conv_based and s['residual'] is not None and s['residual'] > level_params['restol']:
                continue  # not converged: different rule (outside the statement)
            ok = e < tol if not conv_based else e <= tol
            if not exhausted:
                r.check(ok, 'accepted-above-tolerance', f'block {b} slot {i}: accepted with estimate {e!r} >= tol {tol!r} (retries in a row {counts[b]}/{case["max_restarts"]})')
        if I['restart_time'] is not None:
            rejected += 1
        if b + 1 >= len(blocks) or avoid:
            continue  # avoid_restarts uses its own step-size update (extra sweeps, contraction-factor estimate): only acceptance is judged
        nxt = blocks[b + 1][0]
        src = blk[I['first_restart']] if I['restart_time'] is not None else blk[-1]
        e = src[est_key]
        old = src['dt']
        restarted = I['restart_time'] is not None
        got = nxt['dt']
        nonconverged = conv_based and src['residual'] is not None and src['residual'] > level_params['restol']
        if restarted and I['first_restart'] == 0 or restarted:
            # a rejected step is retried with a smaller step unless a configured lower limit binds
            lower = max(lim.get('dt_min', 0.0), old * lim.get('dt_slope_min', 0.0))
            if not (got < old):
                # not smaller is legal only if a configured lower limit binds, i.e. the retry is at (or, after the
                # documented shortening to reach Tend, below) that bound
                r.check(lower > 0 and got <= lower * (1 + 1e-12), 'retry-not-smaller', f'block {b + 1}: rejected step retried with dt {got!r} (was {old!r}); lower bound {lower!r}; estimate {e!r} tol {tol!r}')
        if e is None or not np.isfinite(e) or e <= 0 or nonconverged:
            continue
        k = order
        if flavor == 'polynomial':
            k = case['num_nodes'] + (0 if True else 1)
            k = src.get('order_est') or k
        prop_dt = case['beta'] * old * (tol / e) ** (1.0 / k)
        exp = limit(prop_dt, old, lim, restarted)
        if flavor == 'polynomial':
            continue  # order is a status variable of the estimator; formula checked for the other three flavours
        requested = (e > tol) if conv_based else (e >= tol)
        if requested != restarted:
            # the step asked for a restart but its retry budget was exhausted (moved on): the limiters ran while the
            # request was still pending; the statement does not say which variant applies, accept both
            alt = limit(prop_dt, old, lim, requested)
            if abs(got - alt) <= 1e-10 * alt:
                continue
        if abs(got - exp) > 1e-10 * exp:
            overshoot = nxt['time'] + (P + 1) * max(exp, old) > case['Tend'] - 1e-12
            r.check(got < exp and overshoot, 'step-size-formula', f'block {b + 1}: dt {got!r}, expected {exp!r} = limits(beta*dt*(tol/e)^(1/{k})) with dt={old!r} e={e!r} tol={tol!r} beta={case["beta"]} limits={lim}')
    if rejected >= 1 and accepted >= 5:
        r.nontrivial(case)
    if rejected:
        r.label('with-rejection')


@st.composite
def adaptive_cases(draw):
    flavor = draw(st.sampled_from(['embedded', 'embedded', 'rk', 'rk', 'extrapolation', 'polynomial']))
    problem = draw(st.sampled_from(['vdp', 'vdp', 'lorenz', 'logistic', 'dahlquist']))
    case = {
        'flavor': flavor, 'problem': problem, 'mu': draw(st.sampled_from([0.5, 2.0, 5.0, 20.0])), 'lam': draw(st.sampled_from([1.0, 3.0])),
        'lamd': draw(st.sampled_from([-1.0, -5.0, -20.0])), 'e_tol': draw(S.log_uniform(-8, -3)), 'beta': float(np.round(draw(st.floats(0.5, 0.95)), 3)),
        'dt': draw(st.sampled_from([0.01, 0.05, 0.1, 0.2])), 'num_procs': draw(st.sampled_from([1, 1, 2, 3])), 'maxiter': draw(st.integers(2, 4)),
        'num_nodes': draw(st.integers(2, 3)), 'max_restarts': draw(st.sampled_from([2, 5, 10])), 'interp': draw(st.booleans()),
        'rk': draw(st.sampled_from(EMBEDDED_RK)),
    }  # fmt: skip
    case['Tend'] = {'vdp': 1.0, 'lorenz': 0.4, 'logistic': 1.5, 'dahlquist': 1.0}[problem]
    case['avoid_restarts'] = flavor == 'embedded' and draw(st.integers(0, 3)) == 0
    case['update_order_shift'] = draw(st.sampled_from([0, 0, -1, 1])) if flavor == 'rk' else 0
    if case['avoid_restarts']:
        case['num_procs'] = 1
    if flavor in ('polynomial', 'extrapolation'):
        case['num_procs'] = 1
        case['num_nodes'] = 3
    lim = {}
    if draw(st.booleans()):
        if draw(st.booleans()):
            lim['dt_min'] = draw(st.sampled_from([1e-3, 5e-3, 0.02]))
        if draw(st.booleans()):
            lim['dt_max'] = draw(st.sampled_from([0.05, 0.1, 0.3]))
        if draw(st.booleans()):
            lim['dt_slope_min'] = draw(st.sampled_from([0.3, 0.5, 0.8]))
        if draw(st.booleans()):
            lim['dt_slope_max'] = draw(st.sampled_from([1.2, 2.0, 4.0]))
        if draw(st.booleans()):
            lim['dt_rel_min_slope'] = draw(st.sampled_from([0.1, 0.25, 0.4]))
    case['limits'] = lim
    return case


def known_match(fid, clause, case, failure):
    return False


def clauses(tier):
    return [
        Clause('scripted', prop_scripted, strategy=scripted_cases(), examples={'quick': 1500, 'thorough': 40000}),
        Clause('adaptive', prop_adaptive, strategy=adaptive_cases(), examples={'quick': 250, 'thorough': 6000}),
    ]
