#!/bin/sh
# run the registered quick check of each kept seeded change against a scratch copy with the patch applied
# usage: tools/seeds_all.sh [PROP-n ...]   (default: all under /verif/seeded); results are merged into seeds_status.json
cd /verif
names="$@"; [ -z "$names" ] && names=$(ls seeded)
for s in $names; do
  prop=${s%%-*}
  res=$(tools/mut.py $prop --patch seeded/$s/patch.diff quick 2>&1 | grep -E "^MUT:" | tail -1)
  echo "$s: $res"
  /venv/bin/python - "$s" "$res" <<'PY'
import json, os, sys
p = '/verif/seeds_status.json'
d = json.load(open(p)) if os.path.exists(p) else {}
d[sys.argv[1]] = 'DETECTED' if 'DETECTED' in sys.argv[2] else ('MISSED' if 'MISSED' in sys.argv[2] else sys.argv[2][:40])
json.dump(dict(sorted(d.items())), open(p, 'w'), indent=1)
PY
done
