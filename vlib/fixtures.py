"""Harness-side fixtures: linear problems with known matrices (so that dense algebraic oracles exist),
recorder hook, helpers to build steps/levels through the real Step(description).

All problem parameters are plain JSON-able lists so that cases replay from JSON.
"""

import copy

import numpy as np

from pySDC.core.problem import Problem, WorkCounter
from pySDC.core.hooks import Hooks
from pySDC.implementations.datatype_classes.mesh import mesh, imex_mesh, comp2_mesh
from pySDC.implementations.datatype_classes.particles import particles, acceleration


def _arr(x, dtype):
    return np.array(x, dtype=dtype)


def _cplx(x):
    """JSON encoding of complex arrays: [[re, im], ...] or plain floats."""
    a = np.asarray(x, dtype=float)
    return a[..., 0] + 1j * a[..., 1]


class _Forcing:
    """g(t) = c0 + c1*t + c2*cos(w*t), vector valued; None -> zero."""

    def __init__(self, spec, n, dtype):
        self.n = n
        self.dtype = dtype
        if spec is None:
            self.c0 = self.c1 = self.c2 = np.zeros(n, dtype=dtype)
            self.w = 0.0
        else:
            self.c0 = _arr(spec['c0'], dtype)
            self.c1 = _arr(spec['c1'], dtype)
            self.c2 = _arr(spec['c2'], dtype)
            self.w = float(spec['w'])

    def __call__(self, t):
        return self.c0 + self.c1 * t + self.c2 * np.cos(self.w * t)


class LinVec(Problem):
    """u' = A u + g(t), dense A (real or complex), data type mesh."""

    dtype_u = mesh
    dtype_f = mesh

    def __init__(self, A=None, g=None, cplx=False):
        dt = np.dtype('complex128') if cplx else np.dtype('float64')
        Am = _cplx(A) if cplx else _arr(A, float)
        n = Am.shape[0]
        super().__init__(init=(n, None, dt))
        self._makeAttributeAndRegister('A', 'g', 'cplx', localVars=locals(), readOnly=True)
        self.Amat = Am
        self.n = n
        self.forcing = _Forcing(g, n, dt)
        self.work_counters['rhs'] = WorkCounter()
        self.work_counters['solve'] = WorkCounter()
        self.calls = []  # (kind, t, factor)

    def eval_f(self, u, t):
        f = self.dtype_f(self.init)
        f[:] = self.Amat @ np.asarray(u) + self.forcing(t)
        self.work_counters['rhs']()
        self.calls.append(('f', float(t), None))
        return f

    def solve_system(self, rhs, factor, u0, t):
        me = self.dtype_u(self.init)
        me[:] = np.linalg.solve(np.eye(self.n) - factor * self.Amat, np.asarray(rhs) + factor * self.forcing(t))
        self.work_counters['solve']()
        self.calls.append(('s', float(t), float(np.real(factor))))
        return me

    def u_exact(self, t):
        me = self.dtype_u(self.init)
        me[:] = 1.0
        return me


class LinVecIMEX(Problem):
    """u' = (A_I u + g_I(t)) + (A_E u + g_E(t)), imex_mesh right-hand side."""

    dtype_u = mesh
    dtype_f = imex_mesh

    def __init__(self, AI=None, AE=None, gI=None, gE=None, cplx=False):
        dt = np.dtype('complex128') if cplx else np.dtype('float64')
        AIm = _cplx(AI) if cplx else _arr(AI, float)
        AEm = _cplx(AE) if cplx else _arr(AE, float)
        n = AIm.shape[0]
        super().__init__(init=(n, None, dt))
        self._makeAttributeAndRegister('AI', 'AE', 'gI', 'gE', 'cplx', localVars=locals(), readOnly=True)
        self.AIm, self.AEm, self.n = AIm, AEm, n
        self.fI = _Forcing(gI, n, dt)
        self.fE = _Forcing(gE, n, dt)
        self.work_counters['rhs'] = WorkCounter()
        self.work_counters['solve'] = WorkCounter()
        self.calls = []

    def eval_f(self, u, t):
        f = self.dtype_f(self.init)
        f.impl[:] = self.AIm @ np.asarray(u) + self.fI(t)
        f.expl[:] = self.AEm @ np.asarray(u) + self.fE(t)
        self.work_counters['rhs']()
        self.calls.append(('f', float(t), None))
        return f

    def solve_system(self, rhs, factor, u0, t):
        me = self.dtype_u(self.init)
        me[:] = np.linalg.solve(np.eye(self.n) - factor * self.AIm, np.asarray(rhs) + factor * self.fI(t))
        self.work_counters['solve']()
        self.calls.append(('s', float(t), float(np.real(factor))))
        return me

    def u_exact(self, t):
        me = self.dtype_u(self.init)
        me[:] = 1.0
        return me


class LinVecMass(LinVecIMEX):
    """M u' = f_I + f_E with mass matrix M (for imex_1st_order_mass); solve: (M - factor*A_I) u = rhs + factor*g_I."""

    fix_bc_for_residual = False

    def __init__(self, AI=None, AE=None, gI=None, gE=None, M=None, cplx=False):
        super().__init__(AI=AI, AE=AE, gI=gI, gE=gE, cplx=cplx)
        self._makeAttributeAndRegister('M', localVars=locals(), readOnly=True)
        self.Mm = _arr(M, float)

    def apply_mass_matrix(self, u):
        me = self.dtype_u(self.init)
        me[:] = self.Mm @ np.asarray(u)
        return me

    def solve_system(self, rhs, factor, u0, t):
        me = self.dtype_u(self.init)
        me[:] = np.linalg.solve(self.Mm - factor * self.AIm, np.asarray(rhs) + factor * self.fI(t))
        self.work_counters['solve']()
        self.calls.append(('s', float(t), float(np.real(factor))))
        return me


class LinVec2Impl(Problem):
    """u' = (A1 u + g1(t)) + (A2 u + g2(t)), comp2_mesh, two implicit solves (multi_implicit sweeper)."""

    dtype_u = mesh
    dtype_f = comp2_mesh

    def __init__(self, A1=None, A2=None, g1=None, g2=None):
        dt = np.dtype('float64')
        A1m, A2m = _arr(A1, float), _arr(A2, float)
        n = A1m.shape[0]
        super().__init__(init=(n, None, dt))
        self._makeAttributeAndRegister('A1', 'A2', 'g1', 'g2', localVars=locals(), readOnly=True)
        self.A1m, self.A2m, self.n = A1m, A2m, n
        self.f1 = _Forcing(g1, n, dt)
        self.f2 = _Forcing(g2, n, dt)
        self.calls = []

    def eval_f(self, u, t):
        f = self.dtype_f(self.init)
        f.comp1[:] = self.A1m @ np.asarray(u) + self.f1(t)
        f.comp2[:] = self.A2m @ np.asarray(u) + self.f2(t)
        self.calls.append(('f', float(t), None))
        return f

    def solve_system_1(self, rhs, factor, u0, t):
        me = self.dtype_u(self.init)
        me[:] = np.linalg.solve(np.eye(self.n) - factor * self.A1m, np.asarray(rhs) + factor * self.f1(t))
        self.calls.append(('s1', float(t), float(factor)))
        return me

    def solve_system_2(self, rhs, factor, u0, t):
        me = self.dtype_u(self.init)
        me[:] = np.linalg.solve(np.eye(self.n) - factor * self.A2m, np.asarray(rhs) + factor * self.f2(t))
        self.calls.append(('s2', float(t), float(factor)))
        return me

    def u_exact(self, t):
        me = self.dtype_u(self.init)
        me[:] = 1.0
        return me


class LinSecondOrder(Problem):
    """x'' = -K x + g(t) with particles / acceleration data types (for the Verlet-type sweepers)."""

    dtype_u = particles
    dtype_f = acceleration

    def __init__(self, K=None, g=None):
        Km = _arr(K, float)
        n = Km.shape[0]
        super().__init__(init=(n, None, np.dtype('float64')))
        self._makeAttributeAndRegister('K', 'g', localVars=locals(), readOnly=True)
        self.Km, self.n = Km, n
        self.forcing = _Forcing(g, n, np.dtype('float64'))
        self.calls = []

    def eval_f(self, u, t):
        f = self.dtype_f(self.init)
        f[:] = -self.Km @ np.asarray(u.pos) + self.forcing(t)
        self.calls.append(('f', float(t), None))
        return f

    def u_exact(self, t):
        me = self.dtype_u(self.init)
        me.pos[:] = 1.0
        me.vel[:] = 0.0
        return me


# ----------------------------------------------------------------------------------------------------
class Recorder(Hooks):
    """Event recorder; always calls super(). One shared log per class (reset by the harness before a run)."""

    log = []
    capture = None  # optional callable(name, step, level_number) -> dict of extra data

    @classmethod
    def reset(cls, capture=None):
        cls.log = []
        cls.capture = capture

    def _rec(self, name, step, level_number):
        if step is None:
            return
        L = step.levels[level_number] if level_number is not None else step.levels[0]
        ev = {
            'ev': name,
            'slot': step.status.slot,
            'lvl': level_number,
            'time': L.time,
            'dt': L.dt,
            'iter': step.status.iter,
            'sweep': L.status.sweep,
            'stage': step.status.stage,
            'res': L.status.residual,
            'restart': step.status.get('restart'),
            'rir': step.status.get('restarts_in_a_row'),
        }
        cap = type(self).capture
        if cap is not None:
            extra = cap(name, step, level_number)
            if extra:
                ev.update(extra)
        type(self).log.append(ev)


def _mk(name):
    def f(self, step, level_number):
        getattr(super(Recorder, self), name)(step, level_number)
        self._rec(name, step, level_number)

    f.__name__ = name
    return f


for _n in ['pre_run', 'post_run', 'pre_step', 'post_step', 'pre_predict', 'post_predict', 'pre_iteration', 'post_iteration', 'pre_sweep', 'post_sweep']:
    setattr(Recorder, _n, _mk(_n))


# ----------------------------------------------------------------------------------------------------
def quiet_controller_params(**kw):
    p = {'logger_level': 90, 'dump_setup': False}
    p.update(kw)
    return p


def resolve(name):
    """'module:attr' -> object (classes are referenced by name in JSON cases)."""
    import importlib

    mod, attr = name.split(':')
    return getattr(importlib.import_module(mod), attr)


def random_matrix(rnd, n, kind, scale=1.0):
    """rnd: numpy Generator seeded from a drawn integer. kind: 'stable' (spectrum in left half plane),
    'rot' (skew), 'any'."""
    B = rnd.standard_normal((n, n))
    if kind == 'stable':
        A = -(B @ B.T) / n - 0.1 * np.eye(n) + 0.3 * (B - B.T)
    elif kind == 'rot':
        A = B - B.T
    else:
        A = B
    return (scale * A).tolist()


def random_forcing(rnd, n, on=True):
    if not on:
        return None
    return {'c0': rnd.standard_normal(n).tolist(), 'c1': rnd.standard_normal(n).tolist(), 'c2': rnd.standard_normal(n).tolist(), 'w': float(rnd.uniform(0.5, 4.0))}
