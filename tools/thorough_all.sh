#!/bin/sh
# run every registered thorough tier once against /repo (sequentially), log exit code and wall time
cd /verif
log=${1:-/dev/shm/thorough_all.log}
: > $log
for i in 01 02 03 04 05 06 07 08 09 10 11 12 13 14 15 16 17 18 19 20; do
  t0=$(date +%s)
  ./check C$i thorough > /dev/shm/thorough_C$i.out 2>&1
  rc=$?
  t1=$(date +%s)
  echo "C$i exit=$rc wall=$((t1-t0))s $(grep -c '^VIOLATION' /dev/shm/thorough_C$i.out) violations" >> $log
done
echo DONE >> $log
