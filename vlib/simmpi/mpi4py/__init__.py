"""Deterministic simulated mpi4py (subset used by pySDC), for the C08 check only.
This package is put on sys.path only inside the C08 process, before pySDC is imported."""
from . import MPI  # noqa: F401

__version__ = 'simulated'
