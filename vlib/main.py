"""./check <ID> <quick|thorough>   |   ./check <ID> --replay <file>"""

import importlib
import os
import sys
import traceback


def main(argv):
    if len(argv) < 2:
        print(__doc__, file=sys.stderr)
        return 2
    pid = argv[0].upper()
    from vlib import runner

    try:
        if pid == 'C08':  # simulated mpi4py must be importable before pySDC is imported
            sys.path.insert(0, os.path.join(runner.HERE, 'vlib', 'simmpi'))
        runner.bind_repo()
        mod = importlib.import_module(f'checks.{pid.lower()}')
        if argv[1] == '--replay':
            return runner.run_replay(mod, argv[2])
        tier = os.environ.get('VERIF_TIER') or argv[1]
        if argv[1] in ('quick', 'thorough'):
            tier = argv[1]
        seed = int(os.environ.get('VERIF_SEED', '1') or 1)
        return runner.run_check(mod, tier, seed)
    except SystemExit:
        raise
    except BaseException:
        traceback.print_exc()
        print('HARNESS-ERROR (exit 2): not a verdict about the property', file=sys.stderr)
        return 2


if __name__ == '__main__':
    sys.exit(main(sys.argv[1:]))
