"""C12 - every problem class honours the solver contract the sweepers rely on.

Registry with one entry per importable problem class (classes are discovered by reflection; a class without an
entry is reported as uncovered). Right-hand sides are manufactured: draw an admissible state u*, set
rhs = u* - factor*f_impl(u*, t), start the solver from a perturbed guess, and judge the *validity predicate*
|u - factor*f_impl(u,t) - rhs| <= c*tol on the non-constraint rows (spectral classes: residual of the linear system the
class states, boundary rows included). Several solves are made on one instance with near-equal factors (caches).
Byte snapshots of all arguments; split siblings must sum to the same right-hand side; closed-form ODE solutions are
differentiated numerically (Richardson) and compared with eval_f.
"""

import contextlib
import importlib
import inspect
import io
import pkgutil

import numpy as np
from hypothesis import strategies as st

from vlib.runner import Clause
from vlib import strats as S

import pySDC.implementations.problem_classes as _pkg
from pySDC.core.problem import Problem
from pySDC.core.errors import ProblemError, ConvergenceError

PROPERTY = 'C12'
LEVEL = 'exploration'
RULE = (
    'contract clause: Hypothesis draws a problem class (59 importable ones, registry below), a constructor variant (solver type / boundary condition / parameters), '
    'an admissible state (exact solution at a drawn time plus a bounded perturbation), time, and 2-3 factors from {0} u 10^[-6,2] (nonlinear classes: <= 1e-1) '
    'incl. near-equal pairs. siblings clause: split/unsplit pairs on shared states. exact clause: closed-form ODE solutions at drawn times. '
    'Non-trivial = factor != 0 and state != the class\'s own initial condition; distinct = (class, variant, factor, state key).'
)
ASSUMPTIONS = [
    'Newton/iterative classes are judged against 10x their configured tolerance plus a rounding floor; direct linear solves against 1e-9 relative',
    'factor ranges are narrowed for nonlinear classes (Newton basin); narrowing is listed per class in REG',
    'spectral classes are judged on the linear system they state ((M + dt L) with boundary rows), i.e. on consistency of solver, cache and operators',
]


def discover():
    found = {}
    for m in pkgutil.iter_modules(_pkg.__path__):
        try:
            mod = importlib.import_module(f'pySDC.implementations.problem_classes.{m.name}')
        except Exception:
            continue  # needs an optional library (mpi4py, cupy, petsc, fenics, firedrake)
        for n, o in inspect.getmembers(mod, inspect.isclass):
            if issubclass(o, Problem) and o is not Problem and o.__module__ == mod.__name__:
                found[n] = o
    return found


CLASSES = discover()

LIN = dict(kind='linear', fmax=2)  # direct linear solve: factors up to 1e2
NL = dict(kind='newton', fmax=-1)  # Newton: factors up to 1e-1
# ctor variants per class; 'tolkey' names the configured tolerance parameter (None -> direct)
REG = {
    'Burgers1D': dict(ctor=[{'N': 16}, {'N': 17, 'epsilon': 0.05}], spectral=True, kind='newton', fmax=-2, amp=0.0),
    'Burgers2D': dict(ctor=[{'nx': 8, 'nz': 9}], spectral=True, kind='newton', fmax=-2, amp=0.0),
    'ChemicalReaction3Var': dict(ctor=[{}], tolkey='newton_tol', **NL, amp=0.05, positive=True),
    'DiscontinuousTestODE': dict(ctor=[{}], tolkey='newton_tol', **NL, amp=0.05),
    'ExactDiscontinuousTestODE': dict(ctor=[{}], dummy=True),  # documented dummy: solve_system returns the exact solution
    'GenericNDimFinDiff': dict(
        ctor=[{'nvars': 16, 'derivative': 1}, {'nvars': 16, 'derivative': 2, 'coeff': 0.1}, {'nvars': 15, 'derivative': 2, 'bc': 'dirichlet-zero', 'coeff': 0.1},
              {'nvars': 16, 'derivative': 2, 'coeff': 0.1, 'solver_type': 'CG', 'lintol': 1e-12}, {'nvars': 16, 'derivative': 1, 'solver_type': 'GMRES', 'lintol': 1e-12},
              {'nvars': (8, 8), 'derivative': 2, 'coeff': 0.1, 'freq': (2, 2)}],
        **LIN, amp=1.0, no_exact=True, iterkey='lintol'),  # fmt: skip
    'Heat1DChebychev': dict(ctor=[{'nvars': 16}, {'nvars': 17, 'a': 1, 'b': -2, 'nu': 0.3}], spectral=True, **LIN, amp=0.0),
    'Heat1DUltraspherical': dict(ctor=[{'nvars': 16}, {'nvars': 17, 'a': 1, 'b': -2, 'nu': 0.3}], spectral=True, **LIN, amp=0.0),
    'Heat2DChebychev': dict(ctor=[{'nx': 8, 'ny': 9}], spectral=True, **LIN, amp=0.0),
    'Heat2DUltraspherical': dict(ctor=[{'nx': 8, 'ny': 9}], spectral=True, **LIN, amp=0.0),
    'JacobiElliptic': dict(ctor=[{}], tolkey='newton_tol', **NL, amp=0.05),
    'Kaps': dict(ctor=[{}, {'epsilon': 0.1}], tolkey='newton_tol', **NL, amp=0.05, positive=True),
    'LorenzAttractor': dict(ctor=[{}, {'sigma': 5.0, 'rho': 10.0}], tolkey='newton_tol', **NL, amp=0.3),
    'ProtheroRobinson': dict(ctor=[{}, {'nonLinear': True}, {'epsilon': 0.1}], tolkey='newton_tol', **NL, amp=0.05),
    'ProtheroRobinsonAutonomous': dict(ctor=[{}, {'nonLinear': True}], tolkey='newton_tol', **NL, amp=0.05),
    'Quench': dict(ctor=[{'nvars': 15}, {'nvars': 15, 'direct_solver': False, 'lintol': 1e-12, 'liniter': 200}, {'nvars': 16, 'leak_type': 'exponential'}], tolkey='newton_tol', kind='newton', fmax=1, amp=0.02, base_shift=0.01),
    'QuenchIMEX': dict(ctor=[{'nvars': 15}, {'nvars': 16}], kind='linear', fmax=1, amp=0.02, base_shift=0.01),
    'acoustic_1d_imex': dict(ctor=[{'nvars': (2, 16)}, {'nvars': (2, 32), 'cs': 1.0, 'cadv': 0.5}], **LIN, amp=0.5),
    'advectionNd': dict(ctor=[{'nvars': 16}, {'nvars': 16, 'order': 4}, {'nvars': (8, 8), 'freq': (2, 2)}, {'nvars': 16, 'stencil_type': 'upwind', 'order': 3}], **LIN, amp=0.5),
    'advectiondiffusion1d_imex': dict(ctor=[{'nvars': 16}, {'nvars': 32, 'freq': 2}], **LIN, amp=0.5),
    'advectiondiffusion1d_implicit': dict(ctor=[{'nvars': 16}, {'nvars': 32, 'freq': 2}], **LIN, amp=0.5),
    'allencahn2d_imex': dict(ctor=[{'nvars': (8, 8)}, {'nvars': (16, 16), 'init_type': 'checkerboard'}], **LIN, amp=0.1),
    'allencahn2d_imex_stab': dict(ctor=[{'nvars': (8, 8)}], **LIN, amp=0.1),
    'allencahn_front_finel': dict(ctor=[{'nvars': 15}], tolkey='newton_tol', **NL, amp=0.02, t0only=True),
    'allencahn_front_fullyimplicit': dict(ctor=[{'nvars': 15}, {'nvars': 31, 'eps': 0.08}], tolkey='newton_tol', **NL, amp=0.02),
    'allencahn_front_semiimplicit': dict(ctor=[{'nvars': 15}, {'nvars': 31, 'eps': 0.08}], **LIN, amp=0.02),
    'allencahn_fullyimplicit': dict(ctor=[{'nvars': (8, 8)}, {'nvars': (8, 8), 'order': 4}, {'nvars': (8, 8), 'nu': 4, 'eps': 0.2}, {'nvars': (8, 8), 'nu': 3, 'eps': 0.3, 'radius': 0.3}], tolkey='newton_tol', **NL, amp=0.02),
    'allencahn_multiimplicit': dict(ctor=[{'nvars': (8, 8)}, {'nvars': (8, 8), 'nu': 4, 'eps': 0.2}, {'nvars': (8, 8), 'nu': 3, 'eps': 0.3, 'radius': 0.3}], tolkey='newton_tol', **NL, amp=0.02, comp2=True),
    'allencahn_multiimplicit_v2': dict(ctor=[{'nvars': (8, 8)}, {'nvars': (8, 8), 'nu': 4, 'eps': 0.2}, {'nvars': (8, 8), 'nu': 3, 'eps': 0.3, 'radius': 0.3}], tolkey='newton_tol', **NL, amp=0.02, comp2=True),
    'allencahn_periodic_fullyimplicit': dict(ctor=[{'nvars': 16}, {'nvars': 32, 'eps': 0.1}], tolkey='newton_tol', **NL, amp=0.02),
    'allencahn_periodic_multiimplicit': dict(ctor=[{'nvars': 16}], tolkey='newton_tol', **NL, amp=0.02, comp2=True),
    'allencahn_periodic_semiimplicit': dict(ctor=[{'nvars': 16}, {'nvars': 32, 'eps': 0.1}], **LIN, amp=0.02),
    'allencahn_semiimplicit': dict(ctor=[{'nvars': (8, 8)}, {'nvars': (8, 8), 'nu': 4, 'eps': 0.2}], **LIN, amp=0.02, cgkey='lin_tol'),
    'allencahn_semiimplicit_v2': dict(ctor=[{'nvars': (8, 8)}, {'nvars': (8, 8), 'nu': 4, 'eps': 0.2}, {'nvars': (8, 8), 'nu': 3, 'eps': 0.3, 'radius': 0.3}], tolkey='newton_tol', **NL, amp=0.02),
    'auzinger': dict(ctor=[{'newton_maxiter': 100, 'newton_tol': 1e-12}], tolkey='newton_tol', **NL, amp=0.05),
    'battery': dict(ctor=[{}, {'ncapacitors': 1, 'alpha': 5.0}], **LIN, amp=0.2),
    'battery_implicit': dict(ctor=[{}, {'ncapacitors': 1, 'alpha': 5.0}], tolkey='newton_tol', kind='newton', fmax=0, amp=0.2),
    'battery_n_capacitors': dict(ctor=[{}, {'ncapacitors': 3, 'C': np.array([1.0, 1.0, 1.0]), 'V_ref': np.array([1.0, 1.0, 1.0])}], **LIN, amp=0.2),
    'boussinesq_2d_imex': dict(ctor=[{'nvars': (4, 8, 8), 'x_bounds': (-1.0, 1.0), 'z_bounds': (0.0, 1.0), 'gmres_tol_limit': 1e-10, 'gmres_maxiter': 500, 'gmres_restart': 50}], kind='gmres', fmax=-1, amp=0.1, gmres=True),
    'buck_converter': dict(ctor=[{}, {'duty': 0.3}], **LIN, amp=0.5),
    'fermi_pasta_ulam_tsingou': dict(ctor=[{'npart': 8}], nosolve=True, particles=True),
    'full_solar_system': dict(ctor=[{}, {'sun_only': True}], nosolve=True, particles=True),
    'generalized_fisher': dict(ctor=[{'nvars': 15}, {'nvars': 31, 'nu': 2.0, 'lambda0': 1.0}], tolkey='newton_tol', **NL, amp=0.02),
    'harmonic_oscillator': dict(ctor=[{}, {'k': 1.0, 'mu': 0.5, 'u0': (1, 0)}, {'k': 1.0, 'mu': 2.0, 'u0': (1, 0.3)}, {'k': 1.0, 'mu': 3.0, 'u0': (1, 0)}, {'k': 2.0, 'mu': 4.0, 'u0': (0.5, 1.0)}], nosolve=True, particles=True),
    'heatNd_forced': dict(ctor=[{'nvars': 16}, {'nvars': 15, 'bc': 'dirichlet-zero'}, {'nvars': (8, 8), 'freq': (2, 2)}], **LIN, amp=0.5),
    'heatNd_unforced': dict(ctor=[{'nvars': 16}, {'nvars': 15, 'bc': 'dirichlet-zero'}, {'nvars': 16, 'order': 4}, {'nvars': (8, 8), 'freq': (2, 2)}, {'nvars': 16, 'solver_type': 'CG', 'lintol': 1e-12}, {'nvars': 16, 'solver_type': 'GMRES', 'lintol': 1e-12}], **LIN, amp=0.5, iterkey='lintol'),
    'henon_heiles': dict(ctor=[{}], nosolve=True, particles=True),
    'logistics_equation': dict(ctor=[{}, {'u0': 0.3, 'lam': 2.0}, {'direct': False, 'newton_tol': 1e-12}], tolkey='newton_tol', **NL, amp=0.1, positive=True),
    'nonlinear_ODE_1': dict(ctor=[{}], tolkey='newton_tol', **NL, amp=0.05, clip=(0.0, 0.95)),
    'outer_solar_system': dict(ctor=[{}, {'sun_only': True}], nosolve=True, particles=True),
    'penningtrap': dict(ctor=[{'omega_B': 25.0, 'omega_E': 4.9, 'u0': np.array([[10, 0, 0], [100, 0, 100], [1], [1]], dtype=object), 'nparts': 1, 'sig': 0.1}], nosolve=True, particles=True, boris=True),
    'piline': dict(ctor=[{}, {'Rs': 2.0, 'Rl': 1.0}], **LIN, amp=0.5),
    'polynomial_testequation': dict(ctor=[{}, {'degree': 3, 'seed': 7}], dummy=True),  # documented: solve_system "just returns the exact solution"
    'polynomial_testequation_IMEX': dict(ctor=[{}, {'degree': 3, 'seed': 7}], dummy=True),
    'swfw_scalar': dict(ctor=[{'lambda_s': np.array([-1.0 + 1j]), 'lambda_f': np.array([-10.0 + 3j])}, {'lambda_s': np.array([0.5j, -2.0]), 'lambda_f': np.array([-100.0, 30j])}], **LIN, amp=0.5),
    'test_equation_IMEX': dict(ctor=[{'lambdas_implicit': np.array([-1.0 + 1j, -3.0]), 'lambdas_explicit': np.array([0.5j, -0.1]), 'u0': 1.0}], **LIN, amp=0.5),
    'testequation0d': dict(ctor=[{'lambdas': np.array([-1.0 + 1j, -3.0, 2j]), 'u0': 1.0}], **LIN, amp=0.5),
    'vanderpol': dict(ctor=[{'mu': 5.0, 'u0': np.array([2.0, 0.0]), 'newton_tol': 1e-11}, {'mu': 0.5, 'u0': np.array([1.0, 1.0]), 'newton_tol': 1e-11}], tolkey='newton_tol', **NL, amp=0.3),
    'GenericSpectralLinear': dict(abstract=True),
}  # fmt: skip

SIBLINGS = [
    ('allencahn_periodic_fullyimplicit', ['allencahn_periodic_semiimplicit', 'allencahn_periodic_multiimplicit'], [{'nvars': 16}, {'nvars': 32, 'eps': 0.1, 'dw': -0.1}]),
    ('allencahn_front_fullyimplicit', ['allencahn_front_semiimplicit'], [{'nvars': 15}, {'nvars': 31, 'eps': 0.08}]),
    ('allencahn_fullyimplicit', ['allencahn_semiimplicit', 'allencahn_semiimplicit_v2', 'allencahn_multiimplicit', 'allencahn_multiimplicit_v2'], [{'nvars': (8, 8)}, {'nvars': (8, 8), 'eps': 0.1, 'nu': 1}, {'nvars': (8, 8), 'nu': 4, 'eps': 0.2}, {'nvars': (8, 8), 'nu': 3, 'eps': 0.3, 'radius': 0.3}]),
    ('advectiondiffusion1d_implicit', ['advectiondiffusion1d_imex'], [{'nvars': 16}, {'nvars': 32, 'c': 0.5, 'nu': 0.1}]),
    ('Quench', ['QuenchIMEX'], [{'nvars': 15}, {'nvars': 16, 'leak_type': 'exponential'}]),
    ('battery_implicit', ['battery'], [{}, {'alpha': 5.0}]),
    ('polynomial_testequation', ['polynomial_testequation_IMEX'], [{}, {'degree': 3, 'seed': 7}]),
]

EXACT = {  # closed-form ODE solutions: (ctor variants, time range)
    'testequation0d': ([{'lambdas': np.array([-1.0 + 1j, -3.0, 2j]), 'u0': 1.0}], (0.0, 1.5)),
    'test_equation_IMEX': ([{'lambdas_implicit': np.array([-1.0 + 1j, -3.0]), 'lambdas_explicit': np.array([0.5j, -0.1]), 'u0': 1.0}], (0.0, 1.5)),
    'swfw_scalar': ([{'lambda_s': np.array([-1.0 + 1j]), 'lambda_f': np.array([-10.0 + 3j])}], (0.0, 1.0)),
    'logistics_equation': ([{}, {'u0': 0.3, 'lam': 2.0}], (0.0, 2.0)),
    'polynomial_testequation': ([{}, {'degree': 3, 'seed': 7}], (0.0, 1.5)),
    'polynomial_testequation_IMEX': ([{}, {'degree': 3, 'seed': 7}], (0.0, 1.5)),
    'harmonic_oscillator': ([{}, {'k': 1.0, 'mu': 0.5, 'u0': (1, 0)}, {'k': 1.0, 'mu': 2.0, 'u0': (1, 0.3)}, {'k': 1.0, 'mu': 3.0, 'u0': (1, 0)}, {'k': 2.0, 'mu': 4.0, 'u0': (0.5, 1.0)}], (0.0, 2.0)),
    'ProtheroRobinson': ([{}, {'nonLinear': True}, {'epsilon': 0.1}], (0.0, 1.5)),
    'ProtheroRobinsonAutonomous': ([{}, {'nonLinear': True}], (0.0, 1.5)),
    'auzinger': ([{'newton_maxiter': 100, 'newton_tol': 1e-12}], (0.0, 2.0)),
    'nonlinear_ODE_1': ([{}], (0.0, 1.0)),
    'JacobiElliptic': ([{}], (0.0, 2.0)),
    'Kaps': ([{}, {'epsilon': 0.1}], (0.0, 1.5)),
}  # fmt: skip


def quiet(fn, *a, **kw):
    with contextlib.redirect_stdout(io.StringIO()):
        return fn(*a, **kw)


def arr(x):
    return np.asarray(x)


def impl_part(f, comp=None):
    """the part of the right-hand side that the (comp-th) implicit solve inverts; components are read by name"""
    comps = getattr(type(f), 'components', None)
    if comp is not None:
        return arr(getattr(f, comps[comp]))
    if comps:
        return arr(getattr(f, comps[0]))
    return arr(f)


def full_f(f):
    comps = getattr(type(f), 'components', None)
    if comps:
        out = 0
        for c in comps:
            out = out + arr(getattr(f, c))
        return out
    return arr(f)


def as_u(P, x):
    """some u_exact implementations return a plain ndarray: wrap into the problem's data type"""
    if isinstance(x, P.dtype_u):
        return P.dtype_u(x)
    u = P.dtype_u(P.init)
    u[:] = np.asarray(x).reshape(np.asarray(u).shape)
    return u


def make_state(P, reg, case, t):
    if reg.get('no_exact'):
        u = P.dtype_u(P.init, val=0.0)
    else:
        u = as_u(P, quiet(P.u_exact, 0.0))
    pert = np.resize(np.array(case['pert'], dtype=float), arr(u).shape)
    amp = reg.get('amp', 0.1)
    if reg.get('base_shift'):
        u[:] = arr(u) + reg['base_shift']
    if reg.get('positive'):
        u[:] = arr(u) * (1.0 + amp * pert)
    else:
        u[:] = arr(u) + amp * pert
    if reg.get('clip'):
        u[:] = np.clip(arr(u).real, *reg['clip'])
    # piecewise-defined right-hand sides (battery family): a state exactly on a switching surface v_k = V_ref is not an admissible test
    # point, the right-hand side is discontinuous there (and the classes decide the side from different quantities): move it off the surface
    vref = getattr(P, 'V_ref', None)
    if vref is not None:
        a = arr(u)
        for k in range(1, a.size):
            if abs(a.flat[k] - np.ravel(vref)[min(k - 1, np.size(vref) - 1)]) < 1e-3:
                a.flat[k] += 5e-3
        u[:] = a
    return u


def tol_of(P, reg):
    key = reg.get('tolkey')
    if key and key in getattr(P, 'params', {}):
        return float(P.params[key])
    return None


def prop_contract(case, r):
    name = case['cls']
    reg = REG[name]
    cls = CLASSES[name]
    ctor = reg['ctor'][case['variant'] % len(reg['ctor'])]
    r.label(name)
    try:
        P = quiet(cls, **ctor)
    except Exception as e:
        r.fail('registry-constructor', f'{name}({ctor}): {type(e).__name__}: {e}')
        return
    t = case['t']
    if reg.get('dummy'):
        # documented dummy solver (returns the exact solution): immutability only
        u = quiet(P.u_exact, 0.0)
        ub = arr(u).tobytes()
        f = P.eval_f(u, t)
        rhs = P.dtype_u(u)
        rb = arr(rhs).tobytes()
        P.solve_system(rhs, 0.1, P.dtype_u(u), t)
        r.check(arr(u).tobytes() == ub and arr(rhs).tobytes() == rb, 'argument-mutated', f'{name}')
        return
    if reg.get('nosolve'):
        try:
            u = quiet(P.u_exact, t)
        except AssertionError:
            u = quiet(P.u_exact, 0.0)  # documented: exact state only at the initial time
        snap = (arr(u.pos).tobytes(), arr(u.vel).tobytes())
        f = P.eval_f(u, t)
        r.check((arr(u.pos).tobytes(), arr(u.vel).tobytes()) == snap, 'argument-mutated', f'{name}.eval_f changed its argument')
        f2 = P.eval_f(u, t)
        fa = np.concatenate([arr(getattr(f, c)).ravel() for c in ('elec', 'magn')]) if hasattr(f, 'elec') else arr(f).ravel()
        fb = np.concatenate([arr(getattr(f2, c)).ravel() for c in ('elec', 'magn')]) if hasattr(f2, 'elec') else arr(f2).ravel()
        r.check(np.array_equal(fa, fb), 'eval_f-not-pure', f'{name}: two evaluations at the same state differ')
        r.nontrivial([name, case['variant'], t])
        return
    if reg.get('spectral'):
        return spectral_contract(P, reg, case, r)

    ustar = make_state(P, reg, case, t)
    own_ic = not np.any(np.array(case['pert']))
    scale = max(1.0, float(np.abs(arr(ustar)).max()))
    tol_cfg = tol_of(P, reg)
    comps_list = [0, 1] if reg.get('comp2') else [None]
    for fi, factor in enumerate(case['factors']):
        if reg['kind'] != 'linear' and factor > 10.0 ** reg['fmax']:
            factor = 10.0 ** reg['fmax'] * (factor / 100.0) ** 0.1 if factor > 0 else 0.0
        if reg['kind'] == 'linear' and factor > 10.0 ** reg.get('fmax', 2):
            factor = 10.0 ** reg['fmax']
        for comp in comps_list:
            ub = arr(ustar).tobytes()
            f = P.eval_f(ustar, t)
            if not r.check(arr(ustar).tobytes() == ub, 'argument-mutated', f'{name}.eval_f changed u'):
                return
            fimpl = impl_part(f, comp)
            rhs = P.dtype_u(P.init)
            rhs[:] = arr(ustar) - factor * fimpl
            guess = P.dtype_u(ustar)
            guess[:] = arr(ustar) + 0.3 * reg.get('amp', 0.1) * np.resize(np.array(case['pert'][::-1], dtype=float), arr(ustar).shape) * (0 if reg.get('positive') else 1)
            if reg.get('clip'):
                guess[:] = np.clip(arr(guess).real, *reg['clip'])
            rb, gb = arr(rhs).tobytes(), arr(guess).tobytes()
            solver = P.solve_system if comp is None else (P.solve_system_1 if comp == 0 else P.solve_system_2)
            try:
                u = quiet(solver, rhs, factor, guess, t)
            except (ProblemError, ConvergenceError) as e:
                r.discard(f'solver gave up: {type(e).__name__}')
                return
            r.check(arr(rhs).tobytes() == rb, 'argument-mutated', f'{name}: solve changed rhs (factor {factor})')
            r.check(arr(guess).tobytes() == gb, 'argument-mutated', f'{name}: solve changed the initial guess (factor {factor})')
            r.check(type(u) is P.dtype_u or isinstance(u, P.dtype_u), 'solve-type', f'{name}: returns {type(u).__name__}')
            if not np.isfinite(arr(u)).all():
                r.discard('solver returned non-finite values (outside Newton basin)')
                return
            fu = P.eval_f(u, t)
            res = arr(u) - factor * impl_part(fu, comp) - arr(rhs)
            terms = max(float(np.abs(arr(u)).max()), float(np.abs(factor * impl_part(fu, comp)).max()), float(np.abs(arr(rhs)).max()), 1e-300)
            if reg['kind'] == 'linear' and not reg.get('iterkey') and not reg.get('cgkey') or (reg.get('iterkey') and P.params.get('solver_type', 'direct') == 'direct'):
                tol = 1e-9 * terms
            elif reg.get('iterkey') or reg.get('cgkey'):
                lt = float(P.params.get(reg.get('iterkey') or reg.get('cgkey'), 1e-8))
                tol = 100 * lt * max(terms, 1.0) * max(1.0, float(np.abs(arr(rhs)).max())) + 1e-9 * terms
            elif reg['kind'] == 'gmres':
                tol = 1e-6 * max(terms, 1.0)
            else:
                tol = 10 * (tol_cfg or 1e-9) * max(1.0, scale) + 1e-10 * terms
                # inner / component CG solves are stopped at a relative tolerance lin_tol
                lt = P.params.get('lin_tol', P.params.get('lintol')) if hasattr(P, 'params') else None
                if lt and not P.params.get('direct_solver', False):
                    tol += 100 * float(lt) * max(1.0, float(np.abs(arr(rhs)).max()))
            if factor == 0.0:
                # u - 0*f - rhs = 0: direct solvers return rhs to rounding, iterative ones (CG / GMRES / Newton from a perturbed guess) to their tolerance
                direct = reg['kind'] == 'linear' and not reg.get('iterkey') and not reg.get('cgkey') or (reg.get('iterkey') and P.params.get('solver_type', 'direct') == 'direct')
                r.close(float(np.abs(arr(u) - arr(rhs)).max()), 1e-13 * max(terms, 1.0) if direct else max(tol, 1e-13 * max(terms, 1.0)), 'factor-zero', f'{name}: solve with factor 0 must return rhs')
                continue
            # where the residual sits (used to delimit the known findings F11 / F17 narrowly, from the residual itself)
            rv = np.asarray(res, dtype=float).ravel() if not np.iscomplexobj(res) else np.abs(np.asarray(res)).ravel()
            where = ''
            if name == 'allencahn_front_semiimplicit' and rv.size >= 4:
                where = f' interior-rows-ok={bool(np.abs(rv[1:-1]).max() <= tol)}'
            if name == 'advectiondiffusion1d_implicit' and rv.size >= 4 and rv.size % 2 == 0:
                nyq = (-1.0) ** np.arange(rv.size)
                where = f' off-nyquist-ok={bool(np.abs(rv - nyq * (rv @ nyq) / rv.size).max() <= tol)}'
            r.close(float(np.abs(res).max()), tol, 'solve-residual', lambda: f'{name}{ctor if len(str(ctor)) < 80 else ""} factor={factor!r} t={t!r} comp={comp}: |u - factor*f_impl(u) - rhs| = {np.abs(res).max():.3e}{where}')
            if factor != 0.0 and not own_ic:
                r.nontrivial([name, case['variant'], round(np.log10(factor), 1), comp])


def spectral_contract(P, reg, case, r):
    """(M + dt L) with boundary rows, as the class states it: the solver (incl. its factorisation cache) must solve it"""
    name = type(P).__name__
    t = case['t']
    u0 = as_u(P, quiet(P.u_exact, 0.0))
    try:
        u1 = as_u(P, quiet(P.u_exact, 0.05))
    except (NotImplementedError, AssertionError):
        u1 = as_u(P, u0)  # exact state only available at the initial time
    a, b = case['pert'][0], case['pert'][1]
    rhs = P.dtype_u(u0)
    rhs[:] = (1.0 + 0.5 * a) * arr(u0) + 0.5 * b * arr(u1)  # smooth and consistent with the boundary conditions
    for factor in case['factors']:
        dt = min(factor, 1.0) if factor > 0 else 1e-3
        rb = arr(rhs).tobytes()
        u = P.solve_system(rhs, dt, u0=P.dtype_u(u0), t=t)
        r.check(arr(rhs).tobytes() == rb, 'argument-mutated', f'{name}: solve changed rhs')
        sp = P.spectral
        u_hat = arr(u) if P.spectral_space else arr(sp.transform(u))
        rhs_hat = arr(rhs) if P.spectral_space else arr(sp.transform(rhs))
        A = sp.put_BCs_in_matrix(P.M + dt * P.L)
        b = sp.put_BCs_in_rhs_hat((P.M @ rhs_hat.flatten()).reshape(rhs_hat.shape)).flatten()
        res = A @ u_hat.flatten() - b
        scale = max(1.0, float(np.abs(b).max()), float(abs(A).max()) * float(np.abs(u_hat).max()))
        r.close(float(np.abs(res).max()), 1e-8 * scale, 'spectral-system-residual', lambda: f'{name} dt={dt!r}: |A u - b| = {np.abs(res).max():.3e}')
        r.nontrivial([name, case['variant'], round(np.log10(dt), 1)])


@st.composite
def contract_cases(draw):
    names = sorted(n for n in CLASSES if n in REG and not REG[n].get('abstract'))
    name = draw(st.sampled_from(names))
    nf = draw(st.integers(1, 3))
    factors = []
    for i in range(nf):
        mode = draw(st.integers(0, 9))
        if mode == 0:
            factors.append(0.0)
        elif mode == 1 and factors and factors[-1] > 0:
            factors.append(float(factors[-1] * (1 + draw(st.sampled_from([1e-6, 3e-6, 1e-9, -2e-6])))))
        elif mode == 2 and factors and factors[-1] > 0:
            factors.append(factors[-1])
        else:
            factors.append(draw(S.log_uniform(-6, 2)))
    if draw(st.integers(0, 5)) == 0:
        factors = [draw(S.log_uniform(-9, -8.1))] + [0.0]
    return {
        'cls': name, 'variant': draw(st.integers(0, 5)), 't': draw(st.sampled_from([0.0, 0.1, 0.37, 1.0, 2.0])),
        'factors': factors, 'pert': draw(st.lists(S.small_float(-1, 1), min_size=3, max_size=10)),
    }  # fmt: skip


# ----------------------------------------------------------------------------------------------- registry completeness
def prop_registry(case, r):
    name = case['cls']
    r.nontrivial([name])
    r.check(name in REG, 'uncovered-problem-class', f'{name} is importable but has no registry entry in this check')


def registry_enum(tier):
    return [{'cls': n} for n in sorted(CLASSES)]


# ----------------------------------------------------------------------------------------------- siblings
def prop_siblings(case, r):
    base, sibs, ctors = SIBLINGS[case['group'] % len(SIBLINGS)]
    ctor = ctors[case['variant'] % len(ctors)]
    r.label(base)
    P0 = quiet(CLASSES[base], **ctor)
    reg = REG[base]
    u = make_state(P0, reg, case, case['t'])
    f0 = full_f(P0.eval_f(u, case['t']))
    scale = max(1.0, float(np.abs(f0).max()))
    for sname in sibs:
        Ps = quiet(CLASSES[sname], **ctor)
        us = Ps.dtype_u(Ps.init)
        us[:] = arr(u)
        fs = full_f(Ps.eval_f(us, case['t']))
        r.close(float(np.abs(fs - f0).max()), 1e-11 * scale, 'split-sum', lambda: f'{sname} pieces do not sum to the right-hand side of {base} ({ctor})')
    r.nontrivial([base, case['variant'], case['t']])


@st.composite
def sibling_cases(draw):
    return {'group': draw(st.integers(0, len(SIBLINGS) - 1)), 'variant': draw(st.integers(0, 3)), 't': draw(st.sampled_from([0.0, 0.1, 0.5, 1.3])), 'pert': draw(st.lists(S.small_float(-1, 1), min_size=3, max_size=10))}


# ----------------------------------------------------------------------------------------------- closed-form solutions
def flat_state(u):
    if hasattr(u, 'pos'):
        return np.concatenate([arr(u.pos).ravel(), arr(u.vel).ravel()])
    return arr(u).ravel()


def prop_exact(case, r):
    name = case['cls']
    ctors, (ta, tb) = EXACT[name]
    ctor = ctors[case['variant'] % len(ctors)]
    r.label(name)
    P = quiet(CLASSES[name], **ctor)
    t = ta + (tb - ta) * case['theta']
    # initial condition
    for key in ('u0',):
        if key in ctor:
            ic = flat_state(quiet(P.u_exact, 0.0))
            exp = np.broadcast_to(np.array(ctor[key], dtype=complex).ravel(), ic.shape) if np.size(ctor[key]) in (1, ic.size) else None
            if exp is not None:
                r.close(float(np.abs(ic - exp).max()), 1e-13 * max(1.0, float(np.abs(exp).max())), 'initial-condition', f'{name}({ctor}).u_exact(0) != u0')
    h1, h2 = 1e-3, 5e-4

    def cd(h):
        return (flat_state(quiet(P.u_exact, t + h)) - flat_state(quiet(P.u_exact, t - h))) / (2 * h)

    d1, d2 = cd(h1), cd(h2)
    dudt = (4 * d2 - d1) / 3.0  # Richardson
    est = float(np.abs(d2 - d1).max())
    u = quiet(P.u_exact, t)
    f = P.eval_f(u, t)
    if hasattr(u, 'pos'):
        rhs = np.concatenate([arr(u.vel).ravel(), arr(f).ravel()])
    else:
        rhs = full_f(f).ravel()
    scale = max(1.0, float(np.abs(rhs).max()))
    r.close(float(np.abs(dudt - rhs).max()), 1e-6 * scale + 10 * est * 0.1, 'exact-solution-derivative', lambda: f'{name}({ctor}) t={t!r}: d/dt u_exact differs from eval_f by {np.abs(dudt - rhs).max():.3e}')
    r.nontrivial([name, case['variant'], round(t, 2)])


@st.composite
def exact_cases(draw):
    return {'cls': draw(st.sampled_from(sorted(EXACT))), 'variant': draw(st.integers(0, 5)), 'theta': float(np.round(draw(st.floats(0.02, 0.98)), 3))}


def known_match(fid, clause, case, failure):
    tag, msg = failure
    if fid == 'F11' and clause == 'contract' and tag == 'solve-residual':
        # only the two rows next to the boundary may be off (the solve uses homogeneous boundary data)
        return case['cls'] == 'allencahn_front_semiimplicit' and 'interior-rows-ok=True' in msg
    if fid == 'F17' and clause == 'contract' and tag == 'solve-residual':
        # only the Nyquist mode may be off
        return case['cls'] == 'advectiondiffusion1d_implicit' and 'off-nyquist-ok=True' in msg
    return False


def clauses(tier):
    return [
        Clause('registry', prop_registry, enumerate=registry_enum, exhaustive=True),
        Clause('contract', prop_contract, strategy=contract_cases(), examples={'quick': 1500, 'thorough': 40000}),
        Clause('siblings', prop_siblings, strategy=sibling_cases(), examples={'quick': 150, 'thorough': 3000}),
        Clause('exact', prop_exact, strategy=exact_cases(), examples={'quick': 300, 'thorough': 6000}),
    ]
