#!/venv/bin/python
"""Sensitivity catalogue (not a registered check): hand-written single-site mutants of /repo, each meant to break one
property while keeping the library importable. Every mutant is applied to a scratch copy under /dev/shm (never to
/repo), the registered quick check of its property is run against the copy (VERIF_REPO_ROOT), the copy is deleted.

usage: tools/mutants.py [--dry] [--jobs N] [PROP ...]       results -> /verif/sensitivity.json (merged per property)

`expect` documents what I expect and why: 'detect' (default) or 'equivalent: <reason>' for mutants that turned out not
to change behaviour the property speaks about (kept in the table so that the reasoning is on record).
"""
import json
import os
import shutil
import subprocess
import sys
import tempfile
from concurrent.futures import ThreadPoolExecutor

SW = 'pySDC/implementations/sweeper_classes/'
CC = 'pySDC/implementations/convergence_controller_classes/'
CT = 'pySDC/implementations/controller_classes/'
TR = 'pySDC/implementations/transfer_classes/'
DT = 'pySDC/implementations/datatype_classes/'
HK = 'pySDC/implementations/hooks/'
PC = 'pySDC/implementations/problem_classes/'

M = []


def mut(prop, name, rel, old, new, expect='detect'):
    M.append(dict(prop=prop, name=name, rel=rel, old=old, new=new, expect=expect))


# ---------------------------------------------------------------------------------------------------------------- C01
mut('C01', 'endpoint-weights-shifted', SW + 'generic_implicit.py', 'L.uend += L.dt * self.coll.weights[m] * L.f[m + 1]', 'L.uend += L.dt * self.coll.weights[m - 1] * L.f[m + 1]')
mut('C01', 'recv-last-node-instead-of-uend', CT + 'controller_nonMPI.py', 'target.u[0] = target.prob.dtype_u(source.uend)', 'target.u[0] = target.prob.dtype_u(source.u[-1])', expect='equivalent for C01: its oracle starts from the start value the step actually used (by design); the wrong start value is a chaining defect and is caught by C06 (same mutant listed there)')
mut('C06', 'recv-last-node-instead-of-uend', CT + 'controller_nonMPI.py', 'target.u[0] = target.prob.dtype_u(source.uend)', 'target.u[0] = target.prob.dtype_u(source.u[-1])')
mut('C01', 'restol-times-ten', CC + 'check_convergence.py', 'L.status.residual <= L.params.restol and', 'L.status.residual <= 10 * L.params.restol and')
mut('C01', 'imex-endpoint-drops-expl', SW + 'imex_1st_order.py', 'L.uend += L.dt * self.coll.weights[m] * (L.f[m + 1].impl + L.f[m + 1].expl)', 'L.uend += L.dt * self.coll.weights[m] * (L.f[m + 1].impl)')
# ---------------------------------------------------------------------------------------------------------------- C02
mut('C02', 'implicit-lower-sum-off-by-one', SW + 'generic_implicit.py', '            for j in range(1, m + 1):\n                rhs += L.dt * self.QI[m + 1, j] * L.f[j]', '            for j in range(1, m):\n                rhs += L.dt * self.QI[m + 1, j] * L.f[j]')
mut('C02', 'imex-QE-replaced-by-QI', SW + 'imex_1st_order.py', 'rhs += L.dt * (self.QI[m + 1, j] * L.f[j].impl + self.QE[m + 1, j] * L.f[j].expl)', 'rhs += L.dt * (self.QI[m + 1, j] * L.f[j].impl + self.QI[m + 1, j] * L.f[j].expl)')
mut('C02', 'multi-implicit-Q2int-index', SW + 'multi_implicit.py', 'rhs = L.u[m + 1] - Q2int[m]', 'rhs = L.u[m + 1] - Q2int[m - 1]')
mut('C02', 'explicit-node-time', SW + 'explicit.py', 'L.time + L.dt * self.coll.nodes[m])', 'L.time + L.dt * self.coll.nodes[m - 1])')
mut('C02', 'imex-drops-tau', SW + 'imex_1st_order.py', '            if L.tau[m] is not None:\n                integral[m] += L.tau[m]', '            if False:\n                integral[m] += L.tau[m]')
mut('C02', 'k-dependent-QI-one-late', 'pySDC/core/sweeper.py', 'self.QI = self.get_Qdelta_implicit(qdType, k=k)', 'self.QI = self.get_Qdelta_implicit(qdType, k=k - 1)')
mut('C02', 'boris-position-uses-node-velocity', SW + 'boris_2nd_order.py', 'tmp.pos += L.u[m].pos + L.dt * self.coll.delta_m[m] * L.u[0].vel', 'tmp.pos += L.u[m].pos + L.dt * self.coll.delta_m[m] * L.u[m].vel')
mut('C02', 'boris-tau-not-node-to-node', SW + 'boris_2nd_order.py', '                if m > 0:\n                    integral[m] -= L.tau[m - 1]', '                if False:\n                    integral[m] -= L.tau[m - 1]')
mut('C02', 'boris-endpoint-weights', SW + 'boris_2nd_order.py', 'L.uend.vel += L.dt * self.coll.weights[m] * f', 'L.uend.vel += L.dt * self.coll.weights[m - 1] * f')
mut('C02', 'revert-F26-rkn-stage-time', SW + 'Runge_Kutta_Nystrom.py', 'L.f[m + 1] = P.eval_f(L.u[m + 1], L.time + L.dt * self.coll.nodes[m + 1])', 'L.f[m + 1] = P.eval_f(L.u[m + 1], L.time + L.dt * self.coll.nodes[m])')
mut('C02', 'rkn-position-uses-velocity-tableau', SW + 'Runge_Kutta_Nystrom.py', 'rhs.pos += L.dt**2 * self.Qx[m + 1, j] * self.get_full_f(f)', 'rhs.pos += L.dt**2 * self.QI[m + 1, j] * self.get_full_f(f)')
mut('C02', 'multistep-alpha-sign', SW + 'Multistep.py', 'rhs -= self.alpha[i] * self.cache.u[i]', 'rhs += self.alpha[i] * self.cache.u[i]')
mut('C02', 'multistep-am2-coefficient', SW + 'Multistep.py', 'beta = [-1.0 / 12.0, 8.0 / 12.0, 5.0 / 12.0]', 'beta = [1.0 / 12.0, 8.0 / 12.0, 5.0 / 12.0]')
mut('C02', 'dae-fully-implicit-lower-sum', 'pySDC/projects/DAE/sweepers/fullyImplicitDAE.py', '            for j in range(1, m):\n                u_approx += L.dt * self.QI[m, j] * L.f[j]', '            for j in range(1, m - 1):\n                u_approx += L.dt * self.QI[m, j] * L.f[j]')
mut('C02', 'dae-semi-implicit-keeps-old-alg', 'pySDC/projects/DAE/sweepers/semiImplicitDAE.py', '            L.u[m].alg[:] = u_new.alg[:]', '            pass')
mut('C02', 'dae-rk-stage-time', 'pySDC/projects/DAE/sweepers/rungeKuttaDAE.py', 'lvl.time + lvl.dt * self.coll.nodes[m + 1],', 'lvl.time + lvl.dt * self.coll.nodes[m],')
# ---------------------------------------------------------------------------------------------------------------- C03
mut('C03', 'last-abs-takes-first-node', 'pySDC/core/sweeper.py', "            L.status.residual = res_norm[-1]\n        elif L.params.residual_type == 'full_rel':", "            L.status.residual = res_norm[0]\n        elif L.params.residual_type == 'full_rel':")
mut('C03', 'maxiter-off-by-one', CC + 'check_convergence.py', 'iter_converged = S.status.iter >= S.params.maxiter', 'iter_converged = S.status.iter > S.params.maxiter')
mut('C03', 'restol-times-ten', CC + 'check_convergence.py', 'L.status.residual <= L.params.restol and', 'L.status.residual <= 10 * L.params.restol and')
mut('C03', 'residual-drops-tau', 'pySDC/core/sweeper.py', '            if L.tau[m] is not None:\n                L.residual[m] += L.tau[m]', '            if False:\n                L.residual[m] += L.tau[m]')
# ---------------------------------------------------------------------------------------------------------------- C04
mut('C04', 'spread-predictor-evaluates-f-at-t0', 'pySDC/core/sweeper.py', "                L.u[m] = P.dtype_u(L.u[0])\n                L.f[m] = P.eval_f(L.u[m], L.time + L.dt * self.coll.nodes[m - 1])", "                L.u[m] = P.dtype_u(init=P.init, val=0.0)\n                L.f[m] = P.eval_f(L.u[m], L.time + L.dt * self.coll.nodes[m - 1])")
mut('C04', 'endpoint-weights-shifted', SW + 'generic_implicit.py', 'L.uend += L.dt * self.coll.weights[m] * L.f[m + 1]', 'L.uend += L.dt * self.coll.weights[m - 1] * L.f[m + 1]')
mut('C04', 'revert-F26-rkn-stage-time', SW + 'Runge_Kutta_Nystrom.py', 'L.f[m + 1] = P.eval_f(L.u[m + 1], L.time + L.dt * self.coll.nodes[m + 1])', 'L.f[m + 1] = P.eval_f(L.u[m + 1], L.time + L.dt * self.coll.nodes[m])')
mut('C04', 'rkn-weight-perturbed', SW + 'Runge_Kutta_Nystrom.py', 'weights_bar = np.array([1.0, 1.0, 1.0, 0]) / 6.0', 'weights_bar = np.array([1.0, 1.0, 1.001, 0]) / 6.0')
# ---------------------------------------------------------------------------------------------------------------- C05
mut('C05', 'Q-transposed', 'pySDC/core/collocation.py', 'Q[1:, 1:] = self.generator.Q', 'Q[1:, 1:] = self.generator.Q.T')
mut('C05', 'S-from-generator', 'pySDC/core/collocation.py', 'S[1:, 1:] = super(self.generator.__class__, self.generator).S', 'S[1:, 1:] = self.generator.S')
mut('C05', 'gauss-right-is-node', 'pySDC/core/collocation.py', "self.right_is_node = self.quad_type in ['LOBATTO', 'RADAU-RIGHT']", "self.right_is_node = self.quad_type in ['LOBATTO', 'RADAU-RIGHT', 'GAUSS']")
# ---------------------------------------------------------------------------------------------------------------- C06
mut('C06', 'next-block-uses-first-dt', CT + 'controller_nonMPI.py', 'time[active_slots[0]] = time[active_slots[-1]] + self.MS[active_slots[-1]].dt', 'time[active_slots[0]] = time[active_slots[-1]] + self.MS[active_slots[0]].dt', expect='equivalent: all steps of a block share one step size, so the first and the last dt coincide')
mut('C06', 'init-step-no-copy', 'pySDC/core/step.py', 'self.levels[0].u[0] = P.dtype_u(u0)', 'self.levels[0].u[0] = u0')
mut('C06', 'restart-continues-from-uend', CT + 'controller_nonMPI.py', 'uend = self.MS[restart_at].levels[0].u[0]', 'uend = self.MS[restart_at].levels[0].uend')
mut('C06', 'restart-time-one-slot-early', CT + 'controller_nonMPI.py', 'time[active_slots[0]] = time[restart_at]', 'time[active_slots[0]] = time[active_slots[restart_at]] if restart_at < 2 else time[active_slots[restart_at - 1]]')
mut('C06', 'activity-threshold-inclusive', CT + 'controller_nonMPI.py', '            active = [time[p] < Tend - 10 * np.finfo(float).eps for p in slots]\n            active_slots', '            active = [time[p] <= Tend + 10 * np.finfo(float).eps for p in slots]\n            active_slots')
# ---------------------------------------------------------------------------------------------------------------- C07
mut('C07', 'done-or-prev-done', CT + 'controller_nonMPI.py', 'S.status.done = S.status.done and S.status.prev_done', 'S.status.done = S.status.done or S.status.prev_done')
mut('C07', 'send-tag-off-at-iter-2', CT + 'controller_nonMPI.py', 'send(S.levels[level], tag=(level, S.status.iter, S.status.slot))', 'send(S.levels[level], tag=(level, S.status.iter + (1 if S.status.iter == 2 else 0), S.status.slot))')
mut('C07', 'running-keeps-done-steps', CT + 'controller_nonMPI.py', "MS_running = [S for S in local_MS_active if S.status.stage != 'DONE']", "MS_running = [S for S in local_MS_active if S.status.stage != 'DONE' or S.status.iter == 1]")
# ---------------------------------------------------------------------------------------------------------------- C08
mut('C08', 'recv-tag-off-by-one', CT + 'controller_MPI.py', 'self.recv(target=self.S.levels[level], source=self.S.prev, tag=level * 100 + self.S.status.iter, comm=comm)', 'self.recv(target=self.S.levels[level], source=self.S.prev, tag=level * 100 + self.S.status.iter + 1, comm=comm)')
mut('C08', 'end-value-bcast-root-0', CT + 'controller_MPI.py', 'bcast(root=comm_active.size - 1, comm=comm_active)', 'bcast(root=0, comm=comm_active)')
mut('C08', 'tend-bcast-root-0', CT + 'controller_MPI.py', 'tend = comm_active.bcast(self.S.time + self.S.dt, root=comm_active.size - 1)', 'tend = comm_active.bcast(self.S.time + self.S.dt, root=0)')
mut('C08', 'restart-value-bcast-root-0', CT + 'controller_MPI.py', 'uend = self.S.levels[0].u[0].bcast(root=restart_at, comm=comm_active)', 'uend = self.S.levels[0].u[0].bcast(root=0, comm=comm_active)')
mut('C08', 'revert-F21-inplace-bcast', CT + 'controller_MPI.py', 'uend = self.S.levels[0].prob.dtype_u(self.S.levels[0].uend).bcast(root=comm_active.size - 1, comm=comm_active)', 'uend = self.S.levels[0].uend.bcast(root=comm_active.size - 1, comm=comm_active)')
mut('C08', 'recv-ignores-prev-done', CT + 'controller_MPI.py', "        if not self.S.status.first and not self.S.status.prev_done:\n            self.logger.debug(\n                'recv data", "        if not self.S.status.first:\n            self.logger.debug(\n                'recv data")
mut('C08', 'no-wait-and-inplace-uend', CT + 'controller_MPI.py', '        if not blocking:\n            self.wait_with_interrupt(request=self.req_send[level])\n            if self.S.status.force_done:\n                return None\n\n        self.S.levels[level].sweep.compute_end_point()', '        old_uend = self.S.levels[level].uend\n        self.S.levels[level].sweep.compute_end_point()\n        if old_uend is not None and self.S.levels[level].uend is not None and self.S.status.iter > 0:\n            old_uend[:] = self.S.levels[level].uend\n            self.S.levels[level].uend = old_uend')
mut('C08', 'wait-kept-inplace-uend', CT + 'controller_MPI.py', '        self.S.levels[level].sweep.compute_end_point()\n\n        if not self.S.status.last:', '        old_uend = self.S.levels[level].uend\n        self.S.levels[level].sweep.compute_end_point()\n        if old_uend is not None and self.S.levels[level].uend is not None and self.S.status.iter > 0:\n            old_uend[:] = self.S.levels[level].uend\n            self.S.levels[level].uend = old_uend\n\n        if not self.S.status.last:', expect='equivalent: the previous send has been waited for, so reusing its buffer is legal')
mut('C08', 'no-wait-before-endpoint', CT + 'controller_MPI.py', '        if not blocking:\n            self.wait_with_interrupt(request=self.req_send[level])\n            if self.S.status.force_done:\n                return None\n\n        self.S.levels[level].sweep.compute_end_point()', '        self.S.levels[level].sweep.compute_end_point()', expect='equivalent: compute_end_point rebinds uend to a new object, the buffer of the pending send is never written')
mut('C08', 'node-residual-max-to-sum', SW + 'generic_implicit_MPI.py', 'L.status.residual = self.comm.allreduce(res_norm, op=MPI.MAX)', 'L.status.residual = self.comm.allreduce(res_norm, op=MPI.SUM)')
mut('C08', 'node-endpoint-root-0', SW + 'generic_implicit_MPI.py', 'root = self.comm.Get_size() - 1', 'root = 0')
mut('C08', 'node-integrate-Q-transposed', SW + 'generic_implicit_MPI.py', 'L.dt * self.coll.Qmat[m + 1, self.rank + 1] * L.f[self.rank + 1], recvBuf, root=m, op=MPI.SUM', 'L.dt * self.coll.Qmat[self.rank + 1, m + 1] * L.f[self.rank + 1], recvBuf, root=m, op=MPI.SUM')
mut('C08', 'node-imex-integrate-drops-expl', SW + 'imex_1st_order_MPI.py', 'L.dt * self.coll.Qmat[m + 1, self.rank + 1] * (L.f[self.rank + 1].impl + L.f[self.rank + 1].expl),', 'L.dt * self.coll.Qmat[m + 1, self.rank + 1] * (L.f[self.rank + 1].impl),')
mut('C08', 'spread-bcast-root-0', CC + 'spread_step_sizes.py', 'new_steps = comm.bcast(new_steps, root=spread_from_step)', 'new_steps = comm.bcast(new_steps, root=0)')
mut('C08', 'all-to-done-LOR', CC + 'check_convergence.py', 'S.status.done = comm.allreduce(sendobj=S.status.done, op=self.MPI_LAND)', 'S.status.done = comm.allreduce(sendobj=S.status.done, op=self.MPI_LOR)')
mut('C08', 'restart-count-not-incremented', CC + 'basic_restarting.py', 'buff[0] = int(S.status.restarts_in_a_row + 1 if S.status.restart else 0)', 'buff[0] = int(S.status.restarts_in_a_row if S.status.restart else 0)')
mut('C08', 'embedded-error-bcast-root-0', CC + 'estimate_embedded_error.py', 'return comm.bcast(abs(L.uold[comm.rank + 1] - L.u[comm.rank + 1]), root=comm.size - 1)', 'return comm.bcast(abs(L.uold[comm.rank + 1] - L.u[comm.rank + 1]), root=0)')
mut('C08', 'base-transfer-Rcoll-transposed', TR + 'BaseTransferMPI.py', 'CF.Reduce(self.Rcoll[n, CF.rank] * tmp_u, recvBuf[CG.rank], root=n, op=MPI.SUM)', 'CF.Reduce(self.Rcoll[CF.rank, n] * tmp_u, recvBuf[CG.rank], root=n, op=MPI.SUM)', expect='equivalent: base_transfer_MPI requires the same number of nodes on both levels, so Rcoll is the identity')
mut('C08', 'base-transfer-prolong-no-feval', TR + 'BaseTransferMPI.py', '        F.f[CF.rank + 1] = PF.eval_f(F.u[CF.rank + 1], F.time + F.dt * SF.coll.nodes[CF.rank])\n', '')
mut('C08', 'mpi-restart-ignores-budget', CC + 'basic_restarting.py', 'S.status.restart = (S.status.restart or self.buffers.restart_earlier) and not self.buffers.max_restart_reached', 'S.status.restart = S.status.restart or self.buffers.restart_earlier')
mut('C08', 'revert-F27-from-first-budget', CC + 'basic_restarting.py', 'max_restart_reached = comm.bcast(S.status.restarts_in_a_row >= self.params.max_restarts, root=0)', 'max_restart_reached = comm.bcast(S.status.restarts_in_a_row > self.params.max_restarts, root=0)')  # the generators reach this rarely (found at seed 3 thorough); the kept replay of F27 is re-run in every tier
mut('C08', 'mpi-dtmax-minus-dt', CC + 'spread_step_sizes.py', 'dt_max = comm.bcast((Tend - time) / size, root=restart_at)', 'dt_max = comm.bcast((Tend - time - S.dt) / size, root=restart_at)')
mut('C08', 'status-send-without-wait', CC + 'check_convergence.py', '            controller.wait_with_interrupt(request=controller.req_status)\n            if S.status.force_done:\n                return None\n', '', expect='equivalent: controller.req_status is never assigned (the status Isend request is dropped), so the wait is a no-op')
# ---------------------------------------------------------------------------------------------------------------- C09
mut('C09', 'max-restarts-strict', CC + 'basic_restarting.py', 'self.buffers.max_restart_reached = S.status.restarts_in_a_row >= self.params.max_restarts\n\n            if self.buffers.max_restart_reached and S.status.restart:\n                if self.params.crash_after_max_restarts:\n                    raise', 'self.buffers.max_restart_reached = S.status.restarts_in_a_row > self.params.max_restarts + 1\n\n            if self.buffers.max_restart_reached and S.status.restart:\n                if self.params.crash_after_max_restarts:\n                    raise')
mut('C09', 'optimal-step-order-plus-one', CC + 'adaptivity.py', 'return beta * dt * (e_tol / e_est) ** (1.0 / order)', 'return beta * dt * (e_tol / e_est) ** (1.0 / (order + 1))')
mut('C09', 'dt-min-not-enforced', CC + 'step_size_limiter.py', '                    L.status.dt_new = self.params.dt_min', '                    pass')
mut('C09', 'slope-min-uses-slope-max', CC + 'step_size_limiter.py', 'dt_new = L.params.dt * self.params.dt_slope_min', 'dt_new = L.params.dt * self.params.dt_slope_max')
mut('C09', 'spreader-takes-smallest-of-restarted', CC + 'spread_step_sizes.py', '            if self.params.spread_from_first_restarted:\n                spread_from_step = restart_at', '            if False:\n                spread_from_step = restart_at')
mut('C09', 'revert-F15-dt-per-step', CC + 'spread_step_sizes.py', '        if S is not MS[0]:\n            for i in range(len(S.levels)):\n                S.levels[i].params.dt = self.new_steps_block[i]\n            return None\n', '', expect='equivalent since fix 729c982 (F22): the Tend limit no longer reads the step sizes of the other steps, so recomputing it per step is idempotent')
# ---------------------------------------------------------------------------------------------------------------- C10
mut('C10', 'tau-sign-flipped', 'pySDC/core/base_transfer.py', 'G.tau[m] = tauFG[m] - tauG[m]', 'G.tau[m] = tauG[m] - tauFG[m]')
mut('C10', 'prolong-full-value', 'pySDC/core/base_transfer.py', 'tmp_u.append(self.space_transfer.prolong(G.u[m] - G.uold[m]))', 'tmp_u.append(self.space_transfer.prolong(G.u[m]))')
mut('C10', 'fine-tau-Rcoll-index', 'pySDC/core/base_transfer.py', 'G.tau[n] += self.Rcoll[n, m] * tmp_tau[m]', 'G.tau[n] += self.Rcoll[n, m - 1] * tmp_tau[m]')
mut('C10', 'prolong-f-not-interpolated', 'pySDC/core/base_transfer.py', '                F.f[n] += self.Pcoll[n - 1, m] * tmp_f[m]', '                pass')
mut('C10', 'extra-fine-sweep-in-it-up', CT + 'controller_nonMPI.py', '            if l - 1 > 0:\n                for k in range(self.nsweeps[l - 1]):', '            if l - 1 >= 0:\n                for k in range(self.nsweeps[l - 1]):')
mut('C10', 'coarse-f-not-reevaluated', 'pySDC/core/base_transfer.py', '            G.f[m] = PG.eval_f(G.u[m], G.time + G.dt * SG.coll.nodes[m - 1])', '            G.f[m] = PG.dtype_f(self.space_transfer.restrict(F.f[min(m, SF.coll.num_nodes)])) if not hasattr(PG.dtype_f, "components") else PG.eval_f(G.u[m], G.time + G.dt * SG.coll.nodes[m - 1])')
# ---------------------------------------------------------------------------------------------------------------- C11
mut('C11', 'stencil-offset', 'pySDC/helpers/transfer_helper.py', 'offset = int(k / 2)', 'offset = int(k / 2) + 1')
mut('C11', 'Rcoll-from-transposed-P', 'pySDC/core/base_transfer.py', 'self.Rcoll = self.get_transfer_matrix_Q(coarse_grid, fine_grid)', 'self.Rcoll = self.get_transfer_matrix_Q(fine_grid, coarse_grid).T')
mut('C11', 'nocoarse-prolong-no-copy', TR + 'TransferMesh_NoCoarse.py', '            F = mesh(G)', '            F = G')
mut('C11', 'fft-prolong-drops-a-mode', TR + 'TransferMesh_FFT.py', 'fine_hat[0:half_idx] = coarse_hat[0:half_idx]', 'fine_hat[0:half_idx - 1] = coarse_hat[0:half_idx - 1]')
# ---------------------------------------------------------------------------------------------------------------- C12
mut('C12', 'fd-direct-solve-sign', PC + 'generic_ND_FD.py', 'sol[:] = spsolve(Id - factor * A, rhs.flatten()).reshape(nvars)', 'sol[:] = spsolve(Id + factor * A, rhs.flatten()).reshape(nvars)')
# ---------------------------------------------------------------------------------------------------------------- C14
mut('C14', 'filter-keeps-on-mismatch', 'pySDC/helpers/stats_helper.py', 'if all([k._asdict().get(k2, None) == v2 for k2, v2 in kwargs.items() if v2 is not None] + [True]):', 'if any([k._asdict().get(k2, None) == v2 for k2, v2 in kwargs.items() if v2 is not None] + [not kwargs]):')
mut('C14', 'stats-not-reset-between-runs', CT + 'controller_nonMPI.py', '        for hook in self.hooks:\n            hook.reset_stats()\n', '', expect='equivalent for C14: it runs every controller once; re-runs are C19 (same mutant listed there)')
# ---------------------------------------------------------------------------------------------------------------- C18
mut('C18', 'centered-stencil-shifted', 'pySDC/helpers/problem_helper.py', 'steps = np.arange(n) - n // 2', 'steps = np.arange(n) - n // 2 + (1 if n > 5 else 0)')
mut('C18', 'dirichlet-grid-spacing', 'pySDC/helpers/problem_helper.py', 'dx = L / (size + 1)', 'dx = L / size')
# ---------------------------------------------------------------------------------------------------------------- C19
mut('C19', 'stats-not-reset-between-runs', CT + 'controller_nonMPI.py', '        for hook in self.hooks:\n            hook.reset_stats()\n', '')
mut('C19', 'level-status-kept-over-reset', 'pySDC/core/level.py', '        if reset_status:\n            self.status = _Status()', '        if reset_status and self.status.residual is None:\n            self.status = _Status()')
# ---------------------------------------------------------------------------------------------------------------- C13
mut('C13', 'init-step-no-copy', 'pySDC/core/step.py', 'self.levels[0].u[0] = P.dtype_u(u0)', 'self.levels[0].u[0] = u0')
mut('C13', 'sweep-updates-in-place', SW + 'generic_implicit.py', '                L.u[m + 1] = P.solve_system(rhs, alpha, L.u[m + 1], L.time + L.dt * self.coll.nodes[m])', '                L.u[m + 1][:] = P.solve_system(rhs, alpha, L.u[m + 1], L.time + L.dt * self.coll.nodes[m])', expect='equivalent: node values are private to the level; what is logged or returned (uend) is a copy made by compute_end_point, so in-place node updates do not reach it')
# ---------------------------------------------------------------------------------------------------------------- C14
mut('C14', 'sort-stats-reversed', 'pySDC/helpers/stats_helper.py', 'sorted(result, key=lambda tup: tup[0])', 'sorted(result, key=lambda tup: tup[0], reverse=True)')
# ---------------------------------------------------------------------------------------------------------------- C15
mut('C15', 'fft-weight-normalisation', 'pySDC/helpers/ParaDiagHelper.py', 'return np.exp(-2 * np.pi * 1j * i1 * i2 / N) / np.sqrt(N)', 'return np.exp(-2 * np.pi * 1j * i1 * i2 / N) / N')
mut('C15', 'increment-subtracted', CT + 'controller_ParaDiag_nonMPI.py', 'S.levels[0].u[m + 1] += S.levels[0].increment[m]', 'S.levels[0].u[m + 1] -= S.levels[0].increment[m]')
mut('C15', 'H-first-column', 'pySDC/helpers/ParaDiagHelper.py', 'H[:, -1] = 1', 'H[:, 0] = 1')
# ---------------------------------------------------------------------------------------------------------------- C16
mut('C16', 'nfields-rounds-up', 'pySDC/helpers/fieldsIO.py', 'return int((self.fileSize - self.hSize) // (self.tSize + self.fSize))', 'return int(-((self.fileSize - self.hSize) // -(self.tSize + self.fSize)))')
mut('C16', 'block-offset', 'pySDC/helpers/blocks.py', 'iLoc = rank * n0 + nRest * (rank >= nRest) + rank * (rank < nRest)', 'iLoc = rank * n0 + nRest')
mut('C16', 'header-grid-sizes-reversed', 'pySDC/helpers/fieldsIO.py', 'return [np.array([self.nVar, self.dim, *self.gridSizes], dtype=np.int32)] + [', 'return [np.array([self.nVar, self.dim, *self.gridSizes[::-1]], dtype=np.int32)] + [')
mut('C16', 'negative-index-clamped', 'pySDC/helpers/fieldsIO.py', 'assert idx >= 0, f"cannot read index {idx-nFields} from {nFields} fields"', 'idx = max(idx, 0)')
# ---------------------------------------------------------------------------------------------------------------- C17
mut('C17', 'derivative-scaling-power', 'pySDC/helpers/spectral_helper.py', 'return self.sparse_lib.csc_matrix(self.xp.linalg.matrix_power(D, p)) / self.lin_trf_fac**p', 'return self.sparse_lib.csc_matrix(self.xp.linalg.matrix_power(D, p)) / self.lin_trf_fac')
# ---------------------------------------------------------------------------------------------------------------- C20
mut('C20', 'level-list-wraps-around', 'pySDC/core/step.py', 'ld[d][k] = v[min(d, len(v) - 1)]', 'ld[d][k] = v[d % len(v)]')
mut('C20', 'missing-transfer-accepted', 'pySDC/core/step.py', "        if len(descr_list) > 1 and not descr_new['space_transfer_class']:", '        if False:', expect='equivalent: without the explicit test the construction still fails a few lines later (base transfer built from None), i.e. the setup is still rejected')
mut('C20', 'controller-order-reversed', 'pySDC/core/controller.py', 'self.convergence_controller_order = np.arange(len(self.convergence_controllers))[np.argsort(orders)]', 'self.convergence_controller_order = np.arange(len(self.convergence_controllers))[np.argsort(orders)[::-1]]')


# --------------------------------------------------------------------------------------------------------------------
def run_one(m, tier='quick'):
    scratch = tempfile.mkdtemp(prefix='pysdc-mut-', dir='/dev/shm')
    try:
        shutil.copytree('/repo/pySDC', os.path.join(scratch, 'pySDC'), ignore=shutil.ignore_patterns('__pycache__', 'playgrounds', 'tutorial', 'data'))
        p = os.path.join(scratch, m['rel'])
        src = open(p, newline='').read()
        n = src.count(m['old'])
        if n == 0:
            return dict(m, outcome='PATTERN-NOT-FOUND')
        open(p, 'w', newline='').write(src.replace(m['old'], m['new'], 1))
        env = dict(os.environ, VERIF_REPO_ROOT=scratch, VERIF_OUT=os.path.join(scratch, 'out'), VERIF_SHRINK_S='5')
        pr = subprocess.run(['./check', m['prop'], tier], cwd='/verif', env=env, capture_output=True, text=True)
        tags = []
        for line in pr.stdout.splitlines():
            if 'clause=' in line and 'tag=' in line:
                t = line.strip().split(' :: ')[0]
                if t not in tags:
                    tags.append(t)
        outcome = {0: 'MISSED', 1: 'DETECTED', 2: 'HARNESS-ERROR'}.get(pr.returncode, f'exit {pr.returncode}')
        return dict(prop=m['prop'], name=m['name'], file=m['rel'], expect=m['expect'], outcome=outcome, first_tags=tags[:3], occurrences=n)
    finally:
        shutil.rmtree(scratch, ignore_errors=True)


def main():
    a = sys.argv[1:]
    dry = '--dry' in a
    jobs = int(a[a.index('--jobs') + 1]) if '--jobs' in a else 3
    props = [x for x in a if x.startswith('C')]
    sel = [m for m in M if not props or m['prop'] in props]
    if dry:
        bad = 0
        for m in sel:
            n = open(os.path.join('/repo', m['rel']), newline='').read().count(m['old'])
            if n != 1:
                print(f"{m['prop']} {m['name']}: pattern found {n} times")
                bad += n == 0
        print(f'{len(sel)} mutants, {bad} with missing pattern')
        return 1 if bad else 0
    import threading

    path = '/verif/sensitivity.json'
    lock = threading.Lock()

    def one(m):
        res = run_one(m)
        with lock:
            old = json.load(open(path)) if os.path.exists(path) else {'mutants': []}
            keep = [x for x in old['mutants'] if (x['prop'], x['name']) != (res['prop'], res['name'])]
            allr = sorted(keep + [res], key=lambda x: (x['prop'], x['name']))
            json.dump({'comment': 'written by tools/mutants.py (quick tier, VERIF_SEED default); not read by any check', 'mutants': allr}, open(path, 'w'), indent=1)
            flag = '' if (res['outcome'] == 'DETECTED') == (res.get('expect', 'detect') == 'detect') else '   <-- UNEXPECTED'
            print(f"{res['prop']} {res['name']}: {res['outcome']} {res.get('first_tags', [''])[:1]}{flag}", flush=True)
        return res

    with ThreadPoolExecutor(jobs) as ex:
        list(ex.map(one, sel))
    return 0


if __name__ == '__main__':
    sys.exit(main())
