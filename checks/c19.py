"""C19 - runs are reproducible, re-entrant and composable at step boundaries.

Differential oracle: every run performed inside a generated *program* of actions (construct controller k, run, re-run on
the same controller, run split at a block boundary and continued, with differently configured controllers - adaptivity,
extra hooks, extra status variables, IMEX data types - constructed and run in between) must give bit-identical end
values and statistics (timings aside) to the same run performed alone on a fresh controller in a *fresh interpreter*.
"""

import json
import os
import subprocess
import sys

import numpy as np
from hypothesis import strategies as st

from vlib.runner import Clause, repo_root, HERE
from vlib import strats as S
from vlib import c19_ref as REF

PROPERTY = 'C19'
LEVEL = 'exploration'
RULE = (
    'Hypothesis draws 1-3 controller configurations (sweeper, preconditioner, nodes, 1-2 levels, 1-3 parallel steps, coupling, predictor, initial guess incl. random, hooks; '
    'some with adaptivity or extra status variables) and a program of <= 7 actions: new(k), run(i), split(i, blocks). References come from a fresh python process per distinct run. '
    'Non-trivial = program with a re-run on the same controller and a differently configured controller constructed or run in between, or a split run; distinct = program.'
)
ASSUMPTIONS = [
    'bit-identical means equal bytes of the end value and equal (key, value) statistics entries except entries whose type contains "timing"',
    'split points are block boundaries of the fixed-step run (t0 + k*num_procs*dt, computed by the same repeated addition the controller uses)',
]

_REFCACHE = {}


def reference(reqs):
    """run the requested (cfg, t0, Tend) list in ONE fresh interpreter (amortises the import cost); cached"""
    keys = [json.dumps(rq, sort_keys=True) for rq in reqs]
    todo = [rq for rq, k in zip(reqs, keys) if k not in _REFCACHE]
    if todo:
        p = subprocess.run(
            [sys.executable, '-B', os.path.join(HERE, 'vlib', 'c19_ref.py'), repo_root(), HERE], input=json.dumps(todo), capture_output=True, text=True, timeout=600,
            env=dict(os.environ, PYTHONHASHSEED='0'),
        )  # fmt: skip
        line = [l for l in p.stdout.splitlines() if l.startswith('C19REF')]
        if p.returncode != 0 or not line:
            raise RuntimeError(f'reference process failed: {p.stderr[-500:]}')
        outs = json.loads(line[-1][6:])
        for rq, o in zip(todo, outs):
            _REFCACHE[json.dumps(rq, sort_keys=True)] = o
    return [_REFCACHE[k] for k in keys]


def block_boundary(cfg, t0, nblocks):
    t = t0
    for _ in range(nblocks):
        # the controller advances block by block: time of first step of next block = time[last] + dt, with time[i] = time[i-1] + dt
        for _ in range(cfg['num_procs']):
            t = t + cfg['dt']
    return t


def same(a, b):
    return a['uend'] == b['uend'] and a['stats'] == b['stats']


def first_diff(a, b):
    if a['uend'] != b['uend']:
        ua = np.frombuffer(bytes.fromhex(a['uend']))
        ub = np.frombuffer(bytes.fromhex(b['uend']))
        return f'end values differ by {np.abs(ua - ub).max():.3e}'
    sa = {json.dumps(k): v for k, v in a['stats']}
    sb = {json.dumps(k): v for k, v in b['stats']}
    only = sorted(set(sa) ^ set(sb))
    if only:
        return f'{len(only)} statistics keys differ, e.g. {only[0][:120]}'
    for k in sa:
        if sa[k] != sb[k]:
            return f'statistics value differs for {k[:120]}'
    return 'no difference'


def _uend_diff(a, b):
    ua = np.frombuffer(bytes.fromhex(a['uend']))
    ub = np.frombuffer(bytes.fromhex(b['uend']))
    if ua.shape != ub.shape:
        return 'shapes differ'
    rel = np.abs(ua - ub).max() / max(1.0, np.abs(ub).max())
    return f'relative difference {rel:.3e} roundoff-only={bool(rel <= 1e-12)}'


def _roundoff_only(stats_a, stats_b):
    """True if the records agree once times are rounded to 11 digits and values are compared to 1e-12 relative
    (keys and values are encoded as in vlib/c19_ref.digest: floats as hex of their 8 bytes, arrays as 'arr:<hex>', floats 'f:<hex>')"""

    def fl(x):
        return float(np.frombuffer(bytes.fromhex(x), dtype=np.float64)[0])

    def norm(stats):
        out = {}
        for key, val in stats:
            if key[6] not in ('niter', 'residual_post_step', 'u'):
                continue
            k2 = [round(fl(x), 11) + 0.0 if isinstance(x, str) and len(x) == 16 and all(c in '0123456789abcdef' for c in x) else x for x in key]
            out[json.dumps(k2)] = val
        return out

    def value(v):
        if isinstance(v, str) and v.startswith('arr:'):
            return np.frombuffer(bytes.fromhex(v[4:]), dtype=np.float64)
        if isinstance(v, str) and v.startswith('f:'):
            return np.array([fl(v[2:])])
        return v

    A, B = norm(stats_a), norm(stats_b)
    if set(A) != set(B):
        return False
    for k in A:
        va, vb = value(A[k]), value(B[k])
        if isinstance(va, np.ndarray) and isinstance(vb, np.ndarray):
            if va.shape != vb.shape or np.abs(va - vb).max() > 1e-12 * max(1.0, np.abs(vb).max()):
                return False
        elif not (isinstance(va, type(vb)) and va == vb):
            return False
    return True


def prop(case, r):
    cfgs = case['configs']
    t0 = case['t0']
    ctrls = {}
    rerun_seen = set()
    interleaved = False
    split_seen = False
    runs = []  # (label, cfg, t0, Tend, digest)
    last_other = None
    for act in case['program']:
        kind = act[0]
        if kind == 'new':
            k = act[1] % len(cfgs)
            ctrls[k] = REF.build_controller(cfgs[k])
            rerun_seen.discard(k)  # a fresh controller object for this configuration
            last_other = k
        elif kind == 'run':
            k = act[1] % len(cfgs)
            if k not in ctrls:
                ctrls[k] = REF.build_controller(cfgs[k])
            cfg = cfgs[k]
            Tend = block_boundary(cfg, t0, act[2])
            ctrl = ctrls[k]
            uend, stats = ctrl.run(u0=REF.initial_value(ctrl, cfg), t0=t0, Tend=Tend)
            label = 'rerun' if k in rerun_seen else 'run'
            if k in rerun_seen and last_other is not None and last_other != k:
                interleaved = True
            rerun_seen.add(k)
            last_other = k
            runs.append((label, k, cfg, t0, Tend, REF.digest(uend, stats)))
        elif kind == 'split':
            k = act[1] % len(cfgs)
            cfg = cfgs[k]
            if cfg.get('adaptivity'):
                continue
            if k not in ctrls:
                ctrls[k] = REF.build_controller(cfgs[k])
            ctrl = ctrls[k]
            n1, n2 = act[2], act[3]
            Tm = block_boundary(cfg, t0, n1)
            Te = block_boundary(cfg, Tm, n2)
            u1, s1 = ctrl.run(u0=REF.initial_value(ctrl, cfg), t0=t0, Tend=Tm)
            u1c = np.array(u1, copy=True)
            u2, s2 = ctrl.run(u0=u1, t0=Tm, Tend=Te)
            rerun_seen.add(k)
            split_seen = True
            runs.append(('split', k, cfg, t0, Te, REF.digest(u2, s2), Tm, REF.digest(u1c, s1)))
    if not runs:
        r.discard('program without runs')
        return
    if interleaved or split_seen:
        r.nontrivial(case)
    if len({json.dumps(c, sort_keys=True, default=str) for c in cfgs}) > 1 and any(sum(c[f] != cfgs[0][f] for f in cfgs[0] if f in c) <= 2 and c != cfgs[0] for c in cfgs[1:]):
        r.label('near-twin-controllers')
    reqs = []
    for item in runs:
        reqs.append([item[2], item[3], item[4]])
        if item[0] == 'split':
            reqs.append([item[2], item[3], item[6]])
    try:
        refs = reference(reqs)
    except subprocess.TimeoutExpired:
        # a wall-clock budget is never a verdict: count the case as inconclusive
        r.discard('reference interpreter did not finish within 600 s')
        return
    it = iter(refs)
    for item in runs:
        label, k, cfg = item[0], item[1], item[2]
        ref = next(it)
        r.label(label, 'random-guess' if cfg['initial_guess'] == 'random' else 'deterministic-guess', 'adaptive' if cfg.get('adaptivity') else 'fixed-dt')
        if label == 'rerun' and cfg.get('adaptivity'):
            continue  # only fixed-step runs are promised to repeat on the same controller (the step size persists)
        if label in ('run', 'rerun'):
            tag = 'fresh-run-differs' if label == 'run' else 'rerun-differs'
            r.check(same(item[5], ref), tag, lambda: f'{label} of config {k} ({cfg["sweeper"]}, procs {cfg["num_procs"]}, levels {cfg["levels"]}, guess {cfg["initial_guess"]}, adaptivity {cfg.get("adaptivity")}): {first_diff(item[5], ref)}')
        else:
            ref_first = next(it)
            r.check(same(item[7], ref_first), 'split-first-part-differs', lambda: f'config {k}: {first_diff(item[7], ref_first)}')
            r.check(item[5]['uend'] == ref['uend'], 'split-continue-differs', lambda: f'config {k} (procs {cfg["num_procs"]}, levels {cfg["levels"]}, guess {cfg["initial_guess"]}): continuing from the returned value at t={item[6]!r} gives a different end value than the uninterrupted run ({_uend_diff(item[5], ref)})')
            # statistics of the two parts together == statistics of the uninterrupted run
            merged = sorted(item[7]['stats'] + item[5]['stats'], key=lambda e: json.dumps(e[0], default=str))
            dedup = []
            for e in merged:
                if not dedup or dedup[-1] != e:
                    dedup.append(e)
            keys_m = {json.dumps(e[0]) for e in dedup if e[0][6] in ('niter', 'residual_post_step', 'u')}
            keys_r = {json.dumps(e[0]) for e in ref['stats'] if e[0][6] in ('niter', 'residual_post_step', 'u')}
            vals_m = {json.dumps(e[0]): e[1] for e in dedup}
            vals_r = {json.dumps(e[0]): e[1] for e in ref['stats']}
            r.check(keys_m == keys_r and all(vals_m[k_] == vals_r[k_] for k_ in keys_r), 'split-statistics-differ', lambda: f'config {k}: per-step records of the two parts differ from the uninterrupted run (roundoff-only={_roundoff_only(dedup, ref["stats"])})')


@st.composite
def config(draw, allow_adaptive=True):
    n = draw(st.integers(1, 3))
    ns = draw(S.node_sets(max_nodes=3, need_right=True))
    levels = draw(st.sampled_from([1, 1, 2]))
    cfg = {
        'sweeper': draw(st.sampled_from(['implicit', 'implicit', 'imex'])), 'A': S.shape_matrix(draw(S.mat(n)), 'stable'), 'A2': S.shape_matrix(draw(S.mat(n)), 'rot'),
        'g': draw(S.forcing(n)), 'u0': draw(S.vec(n)), 'num_nodes': max(2, ns['num_nodes']) if levels == 2 else ns['num_nodes'], 'quad_type': ns['quad_type'], 'node_type': ns['node_type'],
        'QI': draw(st.sampled_from(['IE', 'LU', 'MIN-SR-S', 'MIN-SR-FLEX', 'MIN-SR-FLEX', 'FB'])), 'initial_guess': draw(st.sampled_from(['spread', 'spread', 'copy', 'zero', 'random'])),
        'dt': draw(st.sampled_from([0.125, 0.25, 0.0625, 0.1, 0.3])), 'restol': draw(st.sampled_from([-1.0, 1e-8])), 'maxiter': draw(st.integers(1, 4)), 'levels': levels,
        'num_procs': draw(st.integers(1, 3)), 'jac': draw(st.booleans()), 'predict': draw(st.sampled_from([None, 'fine_only', 'pfasst_burnin'])) if levels == 2 else None,
        'log_solution': draw(st.booleans()), 'log_work': draw(st.booleans()),
    }  # fmt: skip
    if draw(st.integers(0, 3)) == 0:
        cfg['e_tol'] = draw(st.sampled_from([1e-5, 1e-7]))
        cfg['maxiter'] = draw(st.integers(5, 8))
    if allow_adaptive and draw(st.integers(0, 3)) == 0:
        cfg['adaptivity'] = draw(st.sampled_from([1e-3, 1e-5]))
        cfg['levels'] = 1
        cfg['predict'] = None
        cfg['maxiter'] = max(2, cfg['maxiter'])
    return cfg


@st.composite
def cases(draw):
    ncfg = draw(st.integers(1, 3))
    cfgs = [draw(config(allow_adaptive=(i > 0))) for i in range(ncfg)]
    # near twins: controllers living in one process that differ in one or two sweeper/level entries only (anything cached per process
    # under a key that leaves such an entry out makes the later controller pick up the earlier one's data; added after seed C19-3)
    for i in range(1, ncfg):
        if draw(st.booleans()):
            twin = dict(cfgs[0])
            for field in draw(st.lists(st.sampled_from(['node_type', 'node_type', 'QI', 'dt', 'initial_guess', 'quad_type', 'sweeper']), min_size=1, max_size=2, unique=True)):
                if field == 'node_type':
                    twin[field] = draw(st.sampled_from([t for t in S.NODE_TYPES if t != twin.get('node_type')]))
                elif field == 'QI':
                    twin[field] = draw(st.sampled_from(['IE', 'LU', 'MIN-SR-S', 'MIN-SR-FLEX', 'FB']))
                elif field == 'dt':
                    twin[field] = draw(st.sampled_from([0.125, 0.25, 0.0625, 0.1, 0.3]))
                elif field == 'initial_guess':
                    twin[field] = draw(st.sampled_from(['spread', 'copy', 'zero']))
                elif field == 'quad_type':
                    twin[field] = 'LOBATTO' if twin['quad_type'] == 'RADAU-RIGHT' else 'RADAU-RIGHT'
                    twin['num_nodes'] = max(2, twin['num_nodes'])
                else:
                    twin[field] = 'imex' if twin['sweeper'] == 'implicit' else 'implicit'
            cfgs[i] = twin
    prog = []
    for _ in range(draw(st.integers(2, 7))):
        kind = draw(st.sampled_from(['new', 'run', 'run', 'run', 'split']))
        if kind == 'new':
            prog.append(['new', draw(st.integers(0, 2))])
        elif kind == 'run':
            prog.append(['run', draw(st.integers(0, 2)), draw(st.integers(1, 3))])
        else:
            prog.append(['split', draw(st.integers(0, 2)), draw(st.integers(1, 2)), draw(st.integers(1, 2))])
    if draw(st.booleans()):
        # bias: a run, something else in between, and the same run again on the same controller
        nb = draw(st.integers(1, 2))
        prog = [['run', 0, nb]] + prog[:4] + [['run', 0, nb]]
    return {'configs': cfgs, 'program': prog, 't0': draw(st.sampled_from([0.0, 1.0, -0.5]))}


def known_match(fid, clause, case, failure):
    tag, msg = failure
    if fid == 'F20' and tag in ('split-continue-differs', 'split-statistics-differ'):
        # step times of the first block are formed as t0 + (dt + ... + dt), those of later blocks by chained additions:
        # with >= 3 steps per block and a step size that is not exactly representable they differ in the last bit
        import re as _re

        m = _re.search(r'config (\d+)', msg)
        cfg = case['configs'][int(m.group(1)) % len(case['configs'])] if m else None
        dyadic = cfg is not None and float(cfg['dt']) in (0.125, 0.25, 0.0625, 0.5)
        # ... and nothing but rounding differs
        return cfg is not None and cfg['num_procs'] >= 3 and not dyadic and 'roundoff-only=True' in msg
    if fid == 'F8' and tag in ('rerun-differs', 'split-continue-differs', 'split-statistics-differ', 'split-first-part-differs'):
        return 'guess random' in msg or ('config' in msg and any(c['initial_guess'] == 'random' for c in case['configs']) and tag.startswith('split'))
    return False


def clauses(tier):
    return [Clause('programs', prop, strategy=cases(), examples={'quick': 112, 'thorough': 4000})]
