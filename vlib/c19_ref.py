"""Reference runner for C19: executes one run description in THIS (fresh) interpreter and prints a JSON digest.
Also imported by checks/c19.py so that the in-process runs are built by exactly the same code."""

import json
import sys

import numpy as np


def build_controller(cfg):
    from vlib import fixtures as F
    from pySDC.implementations.controller_classes.controller_nonMPI import controller_nonMPI
    from pySDC.implementations.sweeper_classes.generic_implicit import generic_implicit
    from pySDC.implementations.sweeper_classes.imex_1st_order import imex_1st_order
    from pySDC.implementations.transfer_classes.TransferMesh_NoCoarse import mesh_to_mesh as nocoarse
    from pySDC.implementations.hooks.log_solution import LogSolution
    from pySDC.implementations.hooks.log_work import LogWork
    from pySDC.implementations.hooks.log_errors import LogGlobalErrorPostStep

    A = np.array(cfg['A'], dtype=float)
    if cfg['sweeper'] == 'imex':
        pc, pp, sc = F.LinVecIMEX, {'AI': A, 'AE': 0.3 * np.array(cfg['A2'], dtype=float), 'gI': cfg['g'], 'gE': None}, imex_1st_order
    else:
        pc, pp, sc = F.LinVec, {'A': A, 'g': cfg['g']}, generic_implicit
    sp = {'num_nodes': cfg['num_nodes'], 'quad_type': cfg['quad_type'], 'QI': cfg['QI'], 'initial_guess': cfg['initial_guess']}
    if cfg.get('node_type'):
        sp['node_type'] = cfg['node_type']
    lp = {'dt': cfg['dt'], 'restol': cfg['restol']}
    desc = {'problem_class': pc, 'problem_params': pp, 'sweeper_class': sc, 'sweeper_params': sp, 'level_params': lp, 'step_params': {'maxiter': cfg['maxiter']}}
    if cfg['levels'] == 2:
        desc['space_transfer_class'] = nocoarse
        lo = 2 if cfg['quad_type'] in ('LOBATTO',) else 1
        desc['sweeper_params']['num_nodes'] = [cfg['num_nodes'], max(lo, cfg['num_nodes'] - 1)]
    if cfg.get('e_tol'):
        lp['e_tol'] = cfg['e_tol']  # stop on the increment between iterations (registers an extra level status variable)
        lp['restol'] = -1.0
    cc = {}
    if cfg.get('adaptivity'):
        from pySDC.implementations.convergence_controller_classes.adaptivity import Adaptivity

        cc[Adaptivity] = {'e_tol': cfg['adaptivity'], 'dt_min': cfg['dt'] / 4.0}  # bounded cost: at most 4x the steps
        lp['restol'] = -1.0
        from pySDC.implementations.convergence_controller_classes.basic_restarting import BasicRestartingNonMPI

        cc[BasicRestartingNonMPI] = {'max_restarts': 3, 'crash_after_max_restarts': False}  # move on instead of raising
    if cfg.get('hotrod'):
        from pySDC.implementations.convergence_controller_classes.estimate_extrapolation_error import EstimateExtrapolationErrorNonMPI

        cc[EstimateExtrapolationErrorNonMPI] = {}
    if cc:
        desc['convergence_controllers'] = cc
    hooks = []
    if cfg.get('log_solution'):
        hooks.append(LogSolution)
    if cfg.get('log_work'):
        hooks.append(LogWork)
    params = F.quiet_controller_params(hook_class=hooks, mssdc_jac=cfg['jac'] if not cfg.get('adaptivity') else False, predict_type=cfg.get('predict'))
    ctrl = controller_nonMPI(num_procs=cfg['num_procs'], controller_params=params, description=desc)
    return ctrl


def initial_value(ctrl, cfg):
    P = ctrl.MS[0].levels[0].prob
    u0 = P.dtype_u(P.init)
    u0[:] = np.resize(np.array(cfg['u0'], dtype=float), u0.shape)
    return u0


def digest(uend, stats):
    ent = []
    for k, v in stats.items():
        if k.type is not None and 'timing' in str(k.type):
            continue
        if isinstance(v, np.ndarray):
            val = 'arr:' + np.asarray(v).tobytes().hex()
        elif isinstance(v, (float, np.floating)):
            val = 'f:' + np.float64(v).tobytes().hex()
        else:
            val = 'o:' + repr(v)
        ent.append([[None if x is None else (np.float64(x).tobytes().hex() if isinstance(x, (float, np.floating)) else x) for x in k], val])
    ent.sort(key=lambda e: json.dumps(e[0], default=str))
    return {'uend': np.asarray(uend).tobytes().hex(), 'stats': ent}


def run_once(cfg, t0, Tend):
    ctrl = build_controller(cfg)
    u0 = initial_value(ctrl, cfg)
    uend, stats = ctrl.run(u0=u0, t0=t0, Tend=Tend)
    return digest(uend, stats)


if __name__ == '__main__':
    import logging
    import warnings

    root, verif = sys.argv[1], sys.argv[2]
    sys.path.insert(0, verif)
    sys.path.insert(0, root)
    logging.disable(logging.CRITICAL)
    warnings.filterwarnings('ignore')
    req = json.loads(sys.stdin.read())
    out = [run_once(cfg, t0, Tend) for cfg, t0, Tend in req]
    print('C19REF' + json.dumps(out))
