"""C11 - transfer operators in time and space are exact on what they promise.

Oracles: exact Lagrange weights (fractions) on the p nearest coarse points, selected independently in integer
index arithmetic (fine index <-> coarse coordinate, periodic images, homogeneous boundary point); Lagrange
interpolation between node sets checked on monomials; FFT prolongation on band-limited trigonometric data.
"""

from fractions import Fraction

import numpy as np
from hypothesis import strategies as st

from vlib.runner import Clause
from vlib import strats as S

from pySDC.core.base_transfer import BaseTransfer
from pySDC.core.collocation import CollBase
from pySDC.core.step import Step
from pySDC.implementations.datatype_classes.mesh import mesh, imex_mesh, comp2_mesh
from pySDC.implementations.datatype_classes.particles import particles, fields, acceleration
from pySDC.implementations.problem_classes.HeatEquation_ND_FD import heatNd_unforced
from pySDC.implementations.problem_classes.AdvectionDiffusionEquation_1D_FFT import advectiondiffusion1d_imex
from pySDC.implementations.problem_classes.AllenCahn_2D_FFT import allencahn2d_imex
from pySDC.implementations.problem_classes.TestEquation_0D import testequation0d
from pySDC.implementations.sweeper_classes.generic_implicit import generic_implicit
from pySDC.implementations.transfer_classes.TransferMesh import mesh_to_mesh
from pySDC.implementations.transfer_classes.TransferMesh_FFT import mesh_to_mesh_fft
from pySDC.implementations.transfer_classes.TransferMesh_FFT2D import mesh_to_mesh_fft2d
from pySDC.implementations.transfer_classes.TransferMesh_NoCoarse import mesh_to_mesh as mesh_nocoarse
from pySDC.implementations.transfer_classes.TransferParticles_NoCoarse import particles_to_particles

PROPERTY = 'C11'
LEVEL = 'exploration'
RULE = (
    'nodes clause: generated pairs of node sets (family, type, counts 1..9) through BaseTransfer in a real two-level Step; '
    'space clause: exhaustive grids 2^k (periodic) / 2^k-1 (Dirichlet), k<=6 quick / 7 thorough, orders 2,4,6,8 that fit, nested shortcut on/off, '
    'plus generated 2-D/3-D and multi-component data; fft clause: generated sizes and band-limited data; types clause: every transfer class x data type. '
    'Non-trivial = order >= 4 or non-nested path or multi-component or dimension >= 2 (space), differing node counts (nodes); distinct = parameter tuple.'
)
ASSUMPTIONS = [
    'orders larger than the number of available (padded) coarse points are outside the domain and not generated',
    'FFT clauses use band-limited data (modes strictly below the coarse Nyquist frequency), as the statement says',
]

EPS = np.finfo(float).eps


# ------------------------------------------------------------------ node-to-node transfer
def lebesgue(src, dst):
    src = np.asarray(src, float)
    L = 0.0
    for x in dst:
        s = 0.0
        for i in range(len(src)):
            li = 1.0
            for j in range(len(src)):
                if j != i:
                    li *= (x - src[j]) / (src[i] - src[j])
            s += abs(li)
        L = max(L, s)
    return max(1.0, L)


def prop_nodes(case, r):
    f, c = case['fine'], case['coarse']
    r.label(f'{f["quad_type"]}->{c["quad_type"]}')
    desc = {
        'problem_class': testequation0d,
        'problem_params': {'lambdas': np.array([-1.0]), 'u0': 1.0},
        'sweeper_class': generic_implicit,
        'sweeper_params': {'num_nodes': [f['num_nodes'], c['num_nodes']], 'node_type': [f['node_type'], c['node_type']], 'quad_type': [f['quad_type'], c['quad_type']]},
        'level_params': {'dt': 0.1},
        'step_params': {'maxiter': 1},
        'space_transfer_class': mesh_nocoarse,
    }
    step = Step(desc)
    bt = step.base_transfer
    fn = np.asarray(step.levels[0].sweep.coll.nodes, float)
    cn = np.asarray(step.levels[1].sweep.coll.nodes, float)
    nF, nC = len(fn), len(cn)
    P = np.asarray(bt.Pcoll, float)
    R = np.asarray(bt.Rcoll, float)
    if nF != nC:
        r.nontrivial([f, c])
    if not r.check(P.shape == (nF, nC) and R.shape == (nC, nF), 'coll-shape', f'{P.shape} {R.shape}'):
        return
    same_set = nF == nC
    if same_set:
        # equal node counts: the class uses the identity (documented shortcut); exactness claims then need equal sets
        r.label('equal-count')
        r.check(np.array_equal(P, np.eye(nF)) and np.array_equal(R, np.eye(nF)), 'coll-identity', 'equal node counts must give identity transfer')
        return
    LP = lebesgue(cn, fn)
    LR = lebesgue(fn, cn)
    # exact on polynomials of degree < #source nodes
    errP = max(np.abs(P @ cn**d - fn**d).max() for d in range(nC))
    errR = max(np.abs(R @ fn**d - cn**d).max() for d in range(nF))
    r.close(errP, 200 * EPS * LP * nC, 'Pcoll-exact', f'{f} <- {c}')
    r.close(errR, 200 * EPS * LR * nF, 'Rcoll-exact', f'{c} <- {f}')
    r.close(np.abs(P.sum(axis=1) - 1).max(), 200 * EPS * LP * nC, 'Pcoll-rowsum')
    r.close(np.abs(R.sum(axis=1) - 1).max(), 200 * EPS * LR * nF, 'Rcoll-rowsum')
    if nF >= nC:
        r.close(np.abs(R @ P - np.eye(nC)).max(), 400 * EPS * LP * LR * nF, 'Rcoll*Pcoll=I', f'{f} {c}')
    # independent Lagrange matrix
    Pind = np.array([[np.prod([(x - cn[j]) / (cn[i] - cn[j]) for j in range(nC) if j != i]) for i in range(nC)] for x in fn])
    r.close(np.abs(P - Pind).max(), 200 * EPS * LP * nC, 'Pcoll-lagrange')


@st.composite
def node_pairs(draw):
    f = draw(S.node_sets(max_nodes=9))
    c = draw(S.node_sets(max_nodes=9))
    return {'fine': f, 'coarse': c}


# ------------------------------------------------------------------ spatial interpolation (1-D matrices)
def lagrange_at(offsets, x=0):
    """exact Lagrange weights at position x for integer positions `offsets`"""
    w = []
    for i, oi in enumerate(offsets):
        num, den = Fraction(1), Fraction(1)
        for j, oj in enumerate(offsets):
            if j != i:
                num *= Fraction(x - oj)
                den *= Fraction(oi - oj)
        w.append(num / den)
    return w


def expected_interp_1d(nf, nc, p, periodic):
    """Expected interpolation matrix, built in integer index arithmetic (positions in units of the fine mesh width)."""
    E = np.zeros((nf, nc))
    if periodic:
        for i in range(nf):  # fine position i, coarse j at position 2j, period nf
            if i % 2 == 0:
                E[i, i // 2] = 1.0
            else:
                offs = [o for o in range(-(p - 1), p, 2)]  # -(p-1), ..., -1, 1, ..., p-1
                w = lagrange_at(offs, 0)
                for o, wo in zip(offs, w):
                    E[i, ((i + o) // 2) % nc] += float(wo)
    else:
        # fine position q = i+1 (1..nf); padded coarse positions 2j, j = 0..nc+1 (0 and nf+1 are the boundary, value 0)
        for i in range(nf):
            q = i + 1
            if q % 2 == 0:
                E[i, q // 2 - 1] = 1.0
            else:
                a = (q - 1) // 2 - p // 2 + 1
                a = min(max(a, 0), nc + 2 - p)
                idx = list(range(a, a + p))
                w = lagrange_at([2 * j for j in idx], q)
                for j, wj in zip(idx, w):
                    if 1 <= j <= nc:
                        E[i, j - 1] += float(wj)
    return E


_PROBS = {}


def heat(nvars, bc):
    key = (nvars, bc)
    if key not in _PROBS:
        _PROBS[key] = heatNd_unforced(nvars=nvars, nu=0.1, freq=2 if isinstance(nvars, int) else tuple([2] * len(nvars)), bc=bc)
    return _PROBS[key]


def sizes(k, periodic, dim):
    nf = 2**k if periodic else 2**k - 1
    nc = 2 ** (k - 1) if periodic else 2 ** (k - 1) - 1
    if dim == 1:
        return nf, nc, nf, nc
    return tuple([nf] * dim), tuple([nc] * dim), nf, nc


def fits(nc, p, periodic):
    return (nc >= p) if periodic else (nc + 2 >= p)


def prop_space(case, r):
    k, p, rp, periodic, nested, dim = case['k'], case['iorder'], case['rorder'], case['periodic'], case['nested'], case['dim']
    bc = 'periodic' if periodic else 'dirichlet-zero'
    nvf, nvc, nf, nc = sizes(k, periodic, dim)
    r.label('periodic' if periodic else 'dirichlet', f'order{p}', 'nested' if nested else 'general', f'dim{dim}', case.get('dtype', 'mesh'))
    if p >= 4 or not nested or dim >= 2 or case.get('dtype', 'mesh') != 'mesh':
        r.nontrivial([k, p, rp, periodic, nested, dim, case.get('dtype', 'mesh')])
    fp, cp = heat(nvf, bc), heat(nvc, bc)
    T = mesh_to_mesh(fp, cp, {'rorder': rp, 'iorder': p, 'periodic': periodic, 'equidist_nested': nested})
    E1 = expected_interp_1d(nf, nc, p, periodic)
    E = E1
    for _ in range(dim - 1):
        E = np.kron(E, E1)
    P = np.asarray(T.Pspace.todense())
    if not r.check(P.shape == E.shape, 'Pspace-shape', f'{P.shape} vs {E.shape}'):
        return
    scale = max(1.0, np.abs(E1).max()) ** dim
    r.close(np.abs(P - E).max(), 1e-11 * scale, 'Pspace-rows', lambda: f'{case}: first bad row {int(np.argmax(np.abs(P - E).max(axis=1)))}')
    # consequences, asserted directly
    if periodic:
        r.close(np.abs(P @ np.ones(P.shape[1]) - 1).max(), 1e-11 * scale, 'constants-preserved')
    if dim == 1:
        # polynomial / trigonometric data
        xf = (np.arange(nf) + (0 if periodic else 1)) / (nf + (0 if periodic else 1))
        xc = (np.arange(nc) + (0 if periodic else 1)) / (nc + (0 if periodic else 1))
        if not periodic:
            for d in range(max(p - 2, 0) + 1):
                # polynomials of degree < p that vanish on the boundary: x(1-x) * x^d with d+2 < p, plus 0
                if d + 2 < p or (p == 2 and d == 0 and False):
                    pf, pc = xf * (1 - xf) * xf**d, xc * (1 - xc) * xc**d
                    r.close(np.abs(P @ pc - pf).max(), 1e-11 * scale, 'dirichlet-polynomials', f'degree {d + 2}')
    # the operator applied to data: per component, per dimension, type preserving
    dtype = {'mesh': mesh, 'imex_mesh': imex_mesh, 'comp2_mesh': comp2_mesh}[case.get('dtype', 'mesh')]
    rng_vals = np.array(case['data'], dtype=float)
    G = dtype(cp.init)
    flatc = int(np.prod(cp.init[0] if not isinstance(cp.init[0], int) else [cp.init[0]]))
    ncomp = 1 if dtype is mesh else 2
    vals = np.resize(rng_vals, ncomp * flatc).reshape((ncomp, flatc)) * (1 + np.arange(ncomp))[:, None]
    if dtype is mesh:
        G[:] = vals[0].reshape(G.shape)
    else:
        for ci in range(2):
            G[ci][:] = vals[ci].reshape(G[ci].shape)
    G0 = np.array(G, copy=True)
    Fm = T.prolong(G)
    r.check(type(Fm) is dtype, 'prolong-type', f'{type(Fm).__name__} for input {dtype.__name__}')
    r.check(np.array_equal(np.asarray(G), G0), 'prolong-mutates-input', '')
    exp = np.array([E @ vals[ci] for ci in range(ncomp)])
    got = np.asarray(Fm).reshape(ncomp, -1) if type(Fm) is dtype or np.asarray(Fm).size == exp.size else None
    if got is not None:
        r.close(np.abs(got - exp).max(), 1e-10 * scale * max(1.0, np.abs(vals).max()), 'prolong-data', f'{case["k"]} {dtype.__name__}')
    # restriction: type/component structure and tensor-product structure w.r.t. the 1-D operator of the same class
    Fd = dtype(fp.init)
    flatf = int(np.prod(fp.init[0] if not isinstance(fp.init[0], int) else [fp.init[0]]))
    fv = np.resize(rng_vals[::-1], ncomp * flatf).reshape((ncomp, flatf)) * (1 + np.arange(ncomp))[:, None]
    if dtype is mesh:
        Fd[:] = fv[0].reshape(Fd.shape)
    else:
        for ci in range(2):
            Fd[ci][:] = fv[ci].reshape(Fd[ci].shape)
    F0 = np.array(Fd, copy=True)
    Gm = T.restrict(Fd)
    r.check(type(Gm) is dtype, 'restrict-type', f'{type(Gm).__name__} for input {dtype.__name__}')
    r.check(np.array_equal(np.asarray(Fd), F0), 'restrict-mutates-input', '')
    T1 = T if dim == 1 else mesh_to_mesh(heat(nf, bc), heat(nc, bc), {'rorder': rp, 'iorder': p, 'periodic': periodic, 'equidist_nested': nested})
    R1 = np.asarray(T1.Rspace.todense())
    Rn = R1
    for _ in range(dim - 1):
        Rn = np.kron(Rn, R1)
    expR = np.array([Rn @ fv[ci] for ci in range(ncomp)])
    if type(Gm) is dtype:
        r.close(np.abs(np.asarray(Gm).reshape(ncomp, -1) - expR).max(), 1e-10 * max(1.0, np.abs(fv).max()) * max(1.0, np.abs(R1).max()) ** dim, 'restrict-data')
    # restriction weights are the transposed interpolation weights of the restriction order, up to one positive factor
    Er = expected_interp_1d(nf, nc, rp, periodic)
    num = float((R1 * Er.T).sum())
    den = float((Er * Er).sum())
    fac = num / den
    r.check(fac > 0, 'restrict-factor', f'{fac}')
    r.close(np.abs(R1 - fac * Er.T).max(), 1e-11 * max(1.0, np.abs(Er).max()), 'restrict-structure', f'{case}')


def space_grid(tier):
    out = []
    kmax = 6 if tier == 'quick' else 7
    for periodic in (True, False):
        for k in range(2 if periodic else 3, kmax + 1):  # Dirichlet: coarse grid needs >= 3 points for the FD problem
            _, _, nf, nc = sizes(k, periodic, 1)
            for p in (2, 4, 6, 8):
                if not fits(nc, p, periodic):
                    continue
                for rp in (2, 4, 6, 8):
                    if not fits(nc, rp, periodic):
                        continue
                    if rp != p and rp != 2 and k > 4:
                        continue
                    for nested in (True, False):
                        out.append({'k': k, 'iorder': p, 'rorder': rp, 'periodic': periodic, 'nested': nested, 'dim': 1, 'dtype': 'mesh', 'data': [0.3, -1.2, 0.7, 2.1, -0.4]})
    return out


@st.composite
def space_cases(draw):
    periodic = draw(st.booleans())
    dim = draw(st.sampled_from([1, 2, 2, 3]))
    kmax = {1: 7, 2: 4, 3: 3}[dim]
    k = draw(st.integers(2 if periodic else 3, max(kmax, 3)))
    _, _, nf, nc = sizes(k, periodic, 1)
    orders = [p for p in (2, 4, 6, 8) if fits(nc, p, periodic)]
    p = draw(st.sampled_from(orders))
    rp = draw(st.sampled_from(orders))
    dtype = draw(st.sampled_from(['mesh', 'imex_mesh', 'comp2_mesh'])) if dim == 1 or True else 'mesh'
    return {
        'k': k, 'iorder': p, 'rorder': rp, 'periodic': periodic, 'nested': draw(st.booleans()), 'dim': dim, 'dtype': dtype,
        'data': draw(st.lists(S.small_float(-3, 3), min_size=3, max_size=12)),
    }  # fmt: skip


# ------------------------------------------------------------------ FFT transfers
def prop_fft(case, r):
    kind, nc, ratio = case['kind'], case['nc'], case['ratio']
    nf = nc * ratio
    r.label(kind, case['dtype'], f'ratio{ratio}')
    dtype = {'mesh': mesh, 'imex_mesh': imex_mesh}[case['dtype']]
    amps = case['amps']
    if kind == 'fft1d':
        fp, cp = advectiondiffusion1d_imex(nvars=nf), advectiondiffusion1d_imex(nvars=nc)
        T = mesh_to_mesh_fft(fp, cp, {})
        xf, xc = np.arange(nf) / nf, np.arange(nc) / nc
        modes = range(0, nc // 2)  # strictly below the coarse Nyquist frequency

        def fun(x, shift):
            u = np.zeros_like(x)
            for m, (a, b) in zip(modes, amps):
                u = u + a * np.cos(2 * np.pi * m * x + shift) + b * np.sin(2 * np.pi * m * x)
            return u

        comps = [fun, lambda x, s: 2.0 * fun(x, s + 0.3)]
        G, Fexp = dtype(cp.init), dtype(fp.init)
        if dtype is mesh:
            G[:] = fun(xc, 0.0)
            Fexp[:] = fun(xf, 0.0)
        else:
            for ci in range(2):
                G[ci][:] = comps[ci](xc, 0.1)
                Fexp[ci][:] = comps[ci](xf, 0.1)
    else:
        fp = allencahn2d_imex(nvars=(nf, nf), nu=2, eps=0.04, radius=0.25, L=1.0, init_type='circle')
        cp = allencahn2d_imex(nvars=(nc, nc), nu=2, eps=0.04, radius=0.25, L=1.0, init_type='circle')
        T = mesh_to_mesh_fft2d(fp, cp, {})
        xf, xc = np.arange(nf) / nf, np.arange(nc) / nc

        def fun2(x):
            X, Y = np.meshgrid(x, x, indexing='ij')
            u = np.zeros_like(X)
            for m, (a, b) in zip(range(0, nc // 2), amps):
                u = u + a * np.cos(2 * np.pi * m * X) * np.cos(2 * np.pi * ((m + 1) % (nc // 2)) * Y) + b * np.sin(2 * np.pi * m * X + 2 * np.pi * m * Y)
            return u

        G, Fexp = dtype(cp.init), dtype(fp.init)
        if dtype is mesh:
            G[:] = fun2(xc)
            Fexp[:] = fun2(xf)
        else:
            for ci in range(2):
                G[ci][:] = (ci + 1) * fun2(xc)
                Fexp[ci][:] = (ci + 1) * fun2(xf)
    if nc >= 4:
        r.nontrivial([kind, nc, ratio, case['dtype']])
    G0 = np.array(G, copy=True)
    try:
        Fm = T.prolong(G)
        Gm = T.restrict(Fexp)
    except Exception as e:
        if kind == 'fft2d' and dtype is imex_mesh:
            r.label('fft2d-imex-rejected')  # raises instead of returning something: rejected, not silently wrong
            return
        raise
    scale = max(1.0, np.abs(np.asarray(Fexp)).max())
    r.check(type(Fm) is dtype, 'fft-prolong-type', f'{type(Fm).__name__} for {dtype.__name__}')
    r.check(type(Gm) is dtype, 'fft-restrict-type', f'{type(Gm).__name__} for {dtype.__name__}')
    if np.asarray(Fm).shape == np.asarray(Fexp).shape:
        r.close(np.abs(np.asarray(Fm) - np.asarray(Fexp)).max(), 1e-11 * scale * nf, 'fft-bandlimited-exact', f'{case}')
    r.check(np.array_equal(np.asarray(G), G0), 'fft-prolong-mutates-input', '')
    if np.asarray(Gm).shape == np.asarray(G).shape:
        r.check(np.array_equal(np.asarray(Gm), G0) or np.abs(np.asarray(Gm) - G0).max() <= 1e-12 * scale, 'fft-injection', 'restrict(fine samples) != coarse samples')
        back = T.restrict(Fm)
        r.close(np.abs(np.asarray(back) - G0).max(), 1e-11 * scale * nf, 'fft-restrict-after-prolong')


@st.composite
def fft_cases(draw):
    kind = draw(st.sampled_from(['fft1d', 'fft1d', 'fft2d']))
    nc = draw(st.sampled_from([2, 4, 8, 16, 32] if kind == 'fft1d' else [2, 4, 8]))
    ratio = draw(st.sampled_from([2, 2, 4])) if kind == 'fft1d' else 2
    amps = draw(st.lists(st.tuples(S.small_float(), S.small_float()), min_size=max(1, nc // 2), max_size=max(1, nc // 2)))
    return {'kind': kind, 'nc': nc, 'ratio': ratio, 'dtype': draw(st.sampled_from(['mesh', 'imex_mesh'])), 'amps': [list(a) for a in amps]}


# ------------------------------------------------------------------ identity transfers: type and independence
def prop_identity(case, r):
    kind = case['kind']
    r.label(kind)
    vals = case['vals']
    if kind in ('mesh', 'imex_mesh'):
        prob = heat(8, 'periodic')
        T = mesh_nocoarse(prob, prob, {})
        cls = {'mesh': mesh, 'imex_mesh': imex_mesh}[kind]
        x = cls(prob.init)
        x[:] = np.resize(np.array(vals, float), x.shape)
    else:
        T = particles_to_particles(None, None, {})
        init = ((3, 2), None, np.dtype('float64'))
        if kind == 'particles':
            x = particles(init)
            x.pos[:] = np.resize(np.array(vals, float), x.pos.shape)
            x.vel[:] = -np.resize(np.array(vals, float), x.vel.shape)
            x.q[:] = 1.5
            x.m[:] = 2.5
        elif kind == 'fields':
            x = fields(init)
            x.elec[:] = np.resize(np.array(vals, float), x.elec.shape)
            x.magn[:] = -np.resize(np.array(vals, float), x.magn.shape)
        else:
            x = acceleration(init)
            x[:] = np.resize(np.array(vals, float), x.shape)
    r.nontrivial([kind, vals])

    def same(a, b):
        if kind == 'particles':
            return np.array_equal(a.pos, b.pos) and np.array_equal(a.vel, b.vel) and np.array_equal(a.q, b.q) and np.array_equal(a.m, b.m)
        if kind == 'fields':
            return np.array_equal(a.elec, b.elec) and np.array_equal(a.magn, b.magn)
        return np.array_equal(np.asarray(a), np.asarray(b))

    def shares(a, b):
        if kind == 'particles':
            return np.shares_memory(a.pos, b.pos) or np.shares_memory(a.vel, b.vel)
        if kind == 'fields':
            return np.shares_memory(a.elec, b.elec) or np.shares_memory(a.magn, b.magn)
        return np.shares_memory(np.asarray(a), np.asarray(b))

    for name in ('restrict', 'prolong'):
        y = getattr(T, name)(x)
        r.check(type(y) is type(x), f'identity-{name}-type', f'{type(y).__name__} for input {type(x).__name__}')
        if type(y) is type(x):
            r.check(same(x, y), f'identity-{name}-values', '')
            r.check(y is not x and not shares(x, y), f'identity-{name}-alias', 'result shares storage with the argument')


@st.composite
def identity_cases(draw):
    return {'kind': draw(st.sampled_from(['mesh', 'imex_mesh', 'particles', 'fields', 'acceleration'])), 'vals': draw(st.lists(S.small_float(-5, 5), min_size=1, max_size=8))}


def known_match(fid, clause, case, failure):
    tag, msg = failure
    if fid == 'F14' and clause in ('space-grid', 'space-generated') and case.get('periodic'):
        nc = 2 ** (case['k'] - 1)
        if tag in ('Pspace-rows', 'prolong-data'):
            return case['iorder'] == nc
        if tag == 'restrict-structure':
            return case['rorder'] == nc
    return False


def clauses(tier):
    return [
        Clause('nodes', prop_nodes, strategy=node_pairs(), examples={'quick': 600, 'thorough': 12000}),
        Clause('space-grid', prop_space, enumerate=space_grid, exhaustive=True),
        Clause('space-generated', prop_space, strategy=space_cases(), examples={'quick': 250, 'thorough': 5000}),
        Clause('fft', prop_fft, strategy=fft_cases(), examples={'quick': 250, 'thorough': 5000}),
        Clause('identity', prop_identity, strategy=identity_cases(), examples={'quick': 100, 'thorough': 1000}),
    ]
