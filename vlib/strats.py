"""Shared Hypothesis strategies (all randomness comes from Hypothesis so that cases shrink and replay)."""

import numpy as np
from hypothesis import strategies as st

NODE_TYPES = ['LEGENDRE', 'EQUID', 'CHEBY-1', 'CHEBY-2', 'CHEBY-3', 'CHEBY-4']
QUAD_TYPES = ['RADAU-RIGHT', 'LOBATTO', 'GAUSS', 'RADAU-LEFT']

# one alias per qmat generator class that the sweepers can accept as implicit preconditioner
QI_NAMES = [
    'IE', 'LU', 'LU2', 'MIN', 'MIN-SR-S', 'MIN-SR-NS', 'MIN-SR-FLEX', 'Qpar', 'TRAP', 'IEpar', 'TRAPAR', 'GS', 'LDU',
    'DNODES', 'DNODES-2', 'DNODES-3', 'DNODES-4', 'DNODES-5', 'FB', 'FB2', 'PIC', 'EE', 'LF', 'MIN3', 'VDHS', 'EXACT',
]  # fmt: skip
QI_ROBUST = ['IE', 'LU', 'MIN-SR-S', 'MIN-SR-NS', 'MIN-SR-FLEX', 'TRAP', 'IEpar', 'GS', 'LU2']  # contraction for stiff decay
QE_NAMES = ['EE', 'PIC', 'LF']

finite = dict(allow_nan=False, allow_infinity=False)


def small_float(lo=-2.0, hi=2.0):
    return st.floats(lo, hi, **finite).map(lambda x: float(np.round(x, 6)))


def vec(n, lo=-2.0, hi=2.0):
    return st.lists(small_float(lo, hi), min_size=n, max_size=n)


def mat(n, m=None, lo=-2.0, hi=2.0):
    m = n if m is None else m
    return st.lists(vec(m, lo, hi), min_size=n, max_size=n)


@st.composite
def node_sets(draw, max_nodes=5, need_right=False, quad_types=None):
    nt = draw(st.sampled_from(NODE_TYPES))
    qts = quad_types or (['RADAU-RIGHT', 'LOBATTO'] if need_right else QUAD_TYPES)
    qt = draw(st.sampled_from(qts))
    lo = 2 if qt in ('LOBATTO', 'RADAU-LEFT') else 1
    M = draw(st.integers(lo, max(lo, max_nodes)))
    return {'node_type': nt, 'quad_type': qt, 'num_nodes': M}


def shape_matrix(B, kind, scale=1.0):
    """Deterministic map from a drawn raw matrix to a matrix with the wanted spectral character."""
    B = np.array(B, dtype=float)
    n = B.shape[0]
    if kind == 'stable':  # symmetric negative definite part plus mild rotation
        A = -(B @ B.T) / max(n, 1) - 0.1 * np.eye(n) + 0.3 * (B - B.T)
    elif kind == 'rot':
        A = B - B.T
    elif kind == 'diag-stable':
        A = -np.diag(np.abs(np.diag(B)) + 0.05)
    else:
        A = B
    return (scale * A).tolist()


@st.composite
def forcing(draw, n, p_on=0.5):
    if draw(st.floats(0, 1)) > p_on:
        return None
    return {'c0': draw(vec(n)), 'c1': draw(vec(n)), 'c2': draw(vec(n)), 'w': draw(small_float(0.5, 4.0))}


def log_uniform(lo_exp, hi_exp):
    return st.floats(lo_exp, hi_exp, **finite).map(lambda e: float(f'{10.0**e:.6g}'))
