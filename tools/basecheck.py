#!/venv/bin/python
"""Run a selection of the repository's tests and report failures that are in BASELINE stable_pass.
usage: tools/basecheck.py [--root DIR] <pytest args...>   (exit 0 iff no stable_pass test failed)"""
import json, os, subprocess, sys, tempfile, xml.etree.ElementTree as ET
args = sys.argv[1:]
root = '/repo'
if args and args[0] == '--root':
    root = args[1]; args = args[2:]
sp = set(json.load(open('/root/.vp/BASELINE.json'))['stable_pass'])
xml = tempfile.mktemp(suffix='.xml', dir='/dev/shm')
env = dict(os.environ, PYTHONPATH=root, OMP_NUM_THREADS='1')
subprocess.call(['/venv/bin/python', '-m', 'pytest', '-q', '-p', 'no:cacheprovider', '--timeout=900', '--continue-on-collection-errors', f'--junitxml={xml}'] + args, cwd=root, env=env, stdout=subprocess.DEVNULL, stderr=subprocess.DEVNULL)
bad, npass, nfail = [], 0, 0
for tc in ET.parse(xml).getroot().iter('testcase'):
    tid = f"{tc.get('classname')}::{tc.get('name')}"
    failed = any(ch.tag in ('failure', 'error') for ch in tc)
    skipped = any(ch.tag == 'skipped' for ch in tc)
    if failed:
        nfail += 1
        if tid in sp:
            bad.append(tid)
    elif not skipped:
        npass += 1
os.remove(xml)
print(f'passed {npass}, failed {nfail}, failed-but-in-stable_pass {len(bad)}')
for b in bad[:30]:
    print('  REGRESSION', b)
sys.exit(1 if bad else 0)
