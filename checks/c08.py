"""C08 - MPI-parallel variants equal their serial counterparts under every schedule.

The real controller_MPI / node-parallel sweepers / MPI flavours of the convergence controllers run on a deterministic
simulated mpi4py (vlib/simmpi): one thread per rank, a baton so that exactly one rank runs, rank switches only inside
MPI calls, and a scheduler that consumes a Hypothesis-drawn decision list (which rank runs next, eager vs rendezvous
completion of standard-mode sends, delayed completion observation by Test). Differential oracle: controller_nonMPI
with num_procs = ranks (resp. the serial sweeper) on the same description. Simulator invariants: no deadlock, every
posted receive matched, no buffer handed to a non-blocking send modified before the send completes.
"""

import os
import sys

_SIM = os.path.join(os.path.dirname(os.path.dirname(os.path.abspath(__file__))), 'vlib', 'simmpi')
if _SIM not in sys.path:
    sys.path.insert(0, _SIM)

import numpy as np
from hypothesis import strategies as st

import mpi4py

if getattr(mpi4py, '__version__', '') != 'simulated':  # a real mpi4py would make this check meaningless
    raise ImportError('C08 needs the simulated mpi4py to be first on sys.path')
from mpi4py import MPI

from vlib.runner import Clause
from vlib import strats as S
from vlib import runs as R
from vlib import fixtures as F

from pySDC.helpers.stats_helper import get_sorted
from pySDC.implementations.controller_classes.controller_nonMPI import controller_nonMPI
from pySDC.implementations.controller_classes.controller_MPI import controller_MPI
from pySDC.implementations.sweeper_classes.generic_implicit import generic_implicit
from pySDC.implementations.sweeper_classes.imex_1st_order import imex_1st_order
from pySDC.implementations.sweeper_classes.generic_implicit_MPI import generic_implicit_MPI
from pySDC.implementations.sweeper_classes.imex_1st_order_MPI import imex_1st_order_MPI
from pySDC.implementations.transfer_classes.TransferMesh_NoCoarse import mesh_to_mesh as nocoarse
from pySDC.implementations.hooks.log_solution import LogSolution
from pySDC.implementations.hooks.log_step_size import LogStepSize
from pySDC.implementations.hooks.log_embedded_error_estimate import LogEmbeddedErrorEstimate
from pySDC.implementations.convergence_controller_classes.basic_restarting import BasicRestartingNonMPI, BasicRestartingMPI
from pySDC.implementations.convergence_controller_classes.adaptivity import Adaptivity
from pySDC.implementations.transfer_classes.BaseTransferMPI import base_transfer_MPI

PROPERTY = 'C08'
LEVEL = 'exploration'
RULE = (
    'time-parallel clause: Hypothesis draws 1-5 ranks, 1-3 levels, predictor, coupling, all_to_done, restol or fixed maxiter, injected restarts / step-size changes, Tend (incl. ranks dropping '
    'out of the last block) and a decision list for the scheduler (rank choice at every MPI call, eager vs rendezvous standard sends, delayed Test); node-parallel clause: 1-4 ranks across nodes with '
    'generic_implicit_MPI / imex_1st_order_MPI (diagonal preconditioners, all residual types, both end-point modes, two levels through base_transfer_MPI, adaptivity); space-time clause: 1-3 time ranks x 1-3 node ranks. '
    'Non-trivial = >= 2 ranks, >= 1 preemption away from program order and >= 1 rendezvous-mode standard send; distinct = (configuration, schedule).'
)
ASSUMPTIONS = [
    'trusted base: fidelity of vlib/simmpi to MPI semantics (rules in vlib/simmpi/README.md, self-tested in clause simulator-selftest)',
    'the interrupt-based iteration estimator is excluded (schedule dependent by design, as the statement says)',
    'Reduce/Allreduce are summed in rank order by the simulator; node-parallel results are compared to 1e-12 relative (pure rounding)',
]


# ------------------------------------------------------------------------------------------------ simulator self-tests
def prop_selftest(case, r):
    kind, n, dec = case['kind'], case['n'], case['decisions']
    r.nontrivial(case)
    w = MPI.World(n, decisions=dec, seed=case['seed'])
    if kind == 'ring':
        def prog(rank, comm):
            buf = np.array([float(rank)])
            out = np.zeros(1)
            req = comm.Isend(buf, dest=(rank + 1) % n, tag=7)
            comm.Recv(out, source=(rank - 1) % n, tag=7)
            req.Wait()
            return float(out[0])

        res = w.run(prog)
        r.check(w.abort is None and not w.violations, 'selftest-ring-clean', f'{w.abort} {w.violations}')
        r.check(res == [float((i - 1) % n) for i in range(n)], 'selftest-ring-values', f'{res}')
    elif kind == 'pingpong':
        def prog(rank, comm):
            if rank == 0:
                comm.send({'a': 1}, dest=1, tag=1)
                return comm.recv(source=1, tag=2)
            if rank == 1:
                x = comm.recv(source=0, tag=1)
                comm.send(x['a'] + 1, dest=0, tag=2)
                return x
            return None

        res = w.run(prog)
        r.check(w.abort is None and not w.violations and res[0] == 2 and res[1] == {'a': 1}, 'selftest-pingpong', f'{res} {w.abort} {w.violations}')
    elif kind == 'collectives':
        def prog(rank, comm):
            a = comm.allgather(rank)
            b = comm.allreduce(rank + 1, op=MPI.SUM)
            c = comm.bcast('x' if rank == n - 1 else None, root=n - 1)
            buf = np.array([rank + 0.5])
            tot = np.zeros(1)
            comm.Allreduce(buf, tot, op=MPI.SUM)
            sub = comm.Split(rank % 2)
            d = sub.allgather(rank)
            e = comm.allreduce(rank == 0, op=MPI.LOR)
            return a, b, c, float(tot[0]), d, e

        res = w.run(prog)
        r.check(w.abort is None and not w.violations, 'selftest-collectives-clean', f'{w.abort} {w.violations}')
        for rank, out in enumerate(res):
            exp = (list(range(n)), n * (n + 1) // 2, 'x', sum(i + 0.5 for i in range(n)), [i for i in range(n) if i % 2 == rank % 2], True)
            r.check(out == exp, 'selftest-collectives-values', f'rank {rank}: {out} != {exp}')
    elif kind == 'deadlock':
        def prog(rank, comm):
            out = np.zeros(1)
            comm.Recv(out, source=(rank + 1) % n, tag=3)  # everybody receives first: must deadlock
            comm.Send(out, dest=(rank - 1) % n, tag=3)

        w.run(prog)
        r.check(any(v[0] == 'deadlock' for v in w.violations), 'selftest-deadlock-not-detected', f'{w.violations}')
    elif kind == 'ssend-cycle':
        def prog(rank, comm):
            buf = np.array([1.0])
            out = np.zeros(1)
            req = comm.Issend(buf, dest=(rank + 1) % n, tag=3)
            req.Wait()  # synchronous send completes only when matched, nobody has posted a receive yet: deadlock
            comm.Recv(out, source=(rank - 1) % n, tag=3)

        w.run(prog)
        r.check(any(v[0] == 'deadlock' for v in w.violations), 'selftest-ssend-deadlock-not-detected', f'{w.violations}')
    elif kind == 'racy-buffer':
        def prog(rank, comm):
            if rank == 0:
                buf = np.array([1.0])
                req = comm.Isend(buf, dest=1, tag=5)
                buf[0] = 2.0  # illegal: buffer reused before the send completed
                req.Wait()
            elif rank == 1:
                out = np.zeros(1)
                comm.Recv(out, source=0, tag=5)
                return float(out[0])

        res = w.run(prog)
        r.check(any(v[0] == 'buffer-modified-before-send-completed' for v in w.violations), 'selftest-race-not-detected', f'{w.violations}')
    elif kind == 'racy-buffer-unwaited':
        def prog(rank, comm):
            if rank == 0:
                buf = np.array([1.0])
                comm.Issend(buf, dest=1, tag=5)  # the request is dropped, as in a 'send and forget'
                buf[0] = 2.0  # illegal: a synchronous send cannot have completed before the receive is posted
                comm.Barrier()
            elif rank == 1:
                comm.Barrier()
                out = np.zeros(1)
                comm.Recv(out, source=0, tag=5)
            else:
                comm.Barrier()

        w.run(prog)
        r.check(any(v[0] == 'buffer-modified-before-send-completed' for v in w.violations), 'selftest-unwaited-race-not-detected', f'{w.violations}')
    elif kind == 'legal-buffer-reuse':
        def prog(rank, comm):
            if rank == 0:
                buf = np.array([1.0])
                for i in range(3):
                    req = comm.Issend(buf, dest=1, tag=5)
                    req.Wait()
                    buf[0] += 1.0  # legal: the send has completed
            elif rank == 1:
                out = np.zeros(1)
                got = []
                for i in range(3):
                    comm.Recv(out, source=0, tag=5)
                    got.append(float(out[0]))
                return got

        res = w.run(prog)
        r.check(w.abort is None and not w.violations and res[1] == [1.0, 2.0, 3.0], 'selftest-legal-reuse-flagged', f'{res} {w.abort} {w.violations}')
    elif kind == 'polling-livelock':
        def prog(rank, comm):
            if rank == 0:
                out = np.zeros(1)
                req = comm.Irecv(out, source=1, tag=4)  # nobody ever sends: polling must be recognised as a deadlock, without a clock
                while not req.Test():
                    pass
            elif rank == 1 and n > 2:
                comm.Send(np.ones(1), dest=2, tag=4)
            elif rank == 2:
                out = np.zeros(1)
                comm.Recv(out, source=1, tag=4)

        w.run(prog)
        r.check(any(v[0] == 'deadlock' for v in w.violations) and not w.timed_out, 'selftest-livelock-not-detected', f'{w.violations} timed_out={w.timed_out}')
    elif kind == 'mismatched-collective':
        def prog(rank, comm):
            if rank == 0:
                comm.Barrier()
            else:
                comm.allgather(rank)

        w.run(prog)
        r.check(any(v[0] == 'collective-mismatch' for v in w.violations) or w.abort is not None, 'selftest-collective-mismatch-not-detected', f'{w.violations}')
    elif kind == 'unmatched-recv':
        def prog(rank, comm):
            if rank == 0:
                out = np.zeros(1)
                comm.Irecv(out, source=1, tag=9)  # never matched, never waited for

        w.run(prog)
        r.check(any(v[0] == 'unmatched-receive' for v in w.violations), 'selftest-unmatched-receive-not-detected', f'{w.violations}')


def selftest_enum(tier):
    out = []
    for kind in ['ring', 'pingpong', 'collectives', 'deadlock', 'ssend-cycle', 'racy-buffer', 'racy-buffer-unwaited', 'legal-buffer-reuse', 'polling-livelock', 'mismatched-collective', 'unmatched-recv']:
        for n in (2, 3, 4):
            for seed in range(6):
                dec = [(seed * 7 + 3 * i) % 5 for i in range(seed * 4)]
                out.append({'kind': kind, 'n': n, 'seed': seed, 'decisions': dec})
    return out


# ------------------------------------------------------------------------------------------------ time-parallel controller
def time_description(case, mpi):
    n = case['n']
    A = np.array(S.shape_matrix(case['B'], 'stable'))
    levels = case['levels']
    sp = {'num_nodes': case['num_nodes'] if levels == 1 else [case['num_nodes']] + [max(1, case['num_nodes'] - 1 - i) for i in range(levels - 1)], 'quad_type': 'RADAU-RIGHT', 'QI': case['QI'], 'initial_guess': case['initial_guess']}
    lp = {'dt': case['dt'], 'restol': case['restol'], 'nsweeps': case['nsweeps'] if levels > 1 else case['nsweeps'][0]}
    cc = {}
    if case.get('script'):
        cc[R.Inject] = {'script': case['script']}
        cc[BasicRestartingMPI if mpi else BasicRestartingNonMPI] = {'max_restarts': 2, 'crash_after_max_restarts': False, 'restart_from_first_step': bool(case.get('from_first'))}
    if case.get('adapt'):
        cc[Adaptivity] = {'e_tol': case['adapt']['e_tol'], 'embedded_error_flavor': case['adapt']['flavor'], 'dt_min': case['dt'] / 8}
        cc[BasicRestartingMPI if mpi else BasicRestartingNonMPI] = {'max_restarts': 3, 'crash_after_max_restarts': False}
    desc = {
        'problem_class': F.LinVec, 'problem_params': {'A': A, 'g': case['g']}, 'sweeper_class': generic_implicit, 'sweeper_params': sp, 'level_params': lp,
        'step_params': {'maxiter': case['maxiter']}, 'convergence_controllers': cc,
    }  # fmt: skip
    if levels > 1:
        desc['space_transfer_class'] = nocoarse
    cparams = F.quiet_controller_params(hook_class=[LogSolution, LogStepSize, LogEmbeddedErrorEstimate] if case.get('adapt') else [LogSolution, LogStepSize], mssdc_jac=case['jac'], all_to_done=case['all_to_done'], predict_type=case['predict'] if levels > 1 else None)
    return desc, cparams


TYPES = ('niter', 'residual_post_step', 'restart', 'dt', 'u')


def op_budget(stats_serial, nranks, nlevels=1):
    """count-based budget of MPI calls for the simulated run, proportional to the work of the serial emulation: FACTOR calls per rank, level
    and iteration (+2 per step attempt); observed maximum on the unchanged tree: see OPS_FACTOR. A run that exceeds it does not terminate
    like the serial one."""
    work = sum(int(v) + 2 for k, v in stats_serial.items() if k.type == 'niter') + 5
    return OPS_FACTOR * nranks * nlevels * work


OPS_FACTOR = 200  # observed maximum of MPI calls per rank, level and (iteration + 2) on the unchanged tree: 11.7


def summarize(stats_list):
    merged = {}
    for s in stats_list:
        if s:
            merged.update({k: v for k, v in s.items() if k.type in TYPES and k.time is not None})
    return merged


def amplification(case, *stats):
    """error-based step-size control computes dt_new from e_tol / e_est where e_est is a difference of iterates: rounding differences between
    the serial and the MPI run (summation order, chained vs summed step times) are amplified by ~ 1 / min(e_est)"""
    if not case.get('adapt'):
        return 1.0
    est = [abs(v) for s in stats for st_ in (s if isinstance(s, list) else [s]) if st_ for k, v in st_.items() if k.type.startswith('error_embedded_estimate') and v is not None]
    est = [e for e in est if e > 0]
    return 1.0 / min(est) if est else 1e16


def _same(typ, v1, v2, rtol, amp, floor=0.0):
    if typ in ('niter', 'restart'):
        return v1 == v2
    if typ == 'u':
        v1, v2 = np.asarray(v1, dtype=complex).ravel(), np.asarray(v2, dtype=complex).ravel()
        return v1.shape == v2.shape and np.abs(v1 - v2).max() <= rtol * max(1.0, np.abs(v1).max())
    if v1 is None or v2 is None:
        return v1 is v2
    # residuals are differences of O(|u|) quantities: their rounding error is absolute, of the size of a few ulp of the solution
    return abs(v1 - v2) <= rtol * max(abs(v1), abs(v2)) + 1e-15 * amp + (floor if typ == 'residual_post_step' else 0.0)


def compare_runs(r, ser, par, P, what, amp=1.0):
    """Records are grouped by (type, time cluster, restart count, slot): serial and MPI times may differ in the last bits, and attempts
    whose keys coincide overwrite each other in the statistics (bit-identical times), which may happen in one run and not in the other.
    Every group must exist on both sides; equally sized groups must agree value by value, otherwise every record of the smaller group
    must have a partner in the larger one. amp: factor by which rounding differences may be amplified (error-based step-size control
    divides by a difference of iterates)."""
    eps = np.finfo(float).eps
    times = sorted({float(k.time) for k in ser} | {float(k.time) for k in par})
    n = len(times) + 2
    rtol = max(1e-12, 64 * eps * amp) * n
    ttol = max(4 * eps, 64 * eps * amp if amp > 1 else 0.0) * n
    cluster = {}
    cid, last = -1, None
    for t in times:
        if last is None or t - last > ttol * max(1.0, abs(t)):
            cid += 1
        cluster[t] = cid
        last = t

    def groups(m):
        g = {}
        for k, v in m.items():
            g.setdefault((k.type, cluster[float(k.time)], int(k.num_restarts or 0), int(k.process if k.process is not None else -1)), []).append((float(k.time), v))
        return g

    ga, gb = groups(ser), groups(par)
    usc = max([1.0] + [float(np.abs(np.asarray(v, dtype=complex)).max()) for k, v in ser.items() if k.type == 'u'])
    floor = 64 * eps * n * usc * amp
    for typ in TYPES:
        ka = sorted(k for k in ga if k[0] == typ)
        kb = sorted(k for k in gb if k[0] == typ)
        if ka != kb:
            only_a = [k for k in ka if k not in gb][:3]
            only_b = [k for k in kb if k not in ga][:3]
            ta = {c: t for t, c in cluster.items()}
            r.fail(f'{what}-{typ}-records', f'(time, restarts, slot) only serial: {[(ta[k[1]], k[2], k[3]) for k in only_a]}, only MPI: {[(ta[k[1]], k[2], k[3]) for k in only_b]}; {len(ka)} vs {len(kb)} groups')
            continue
        for k in ka:
            A, B = ga[k], gb[k]
            small, large = (A, B) if len(A) <= len(B) else (B, A)
            ok = all(any(_same(typ, v1, v2, rtol, amp, floor) for t2, v2 in large) for t1, v1 in small)
            if len(A) == len(B) == 1:
                ok = _same(typ, A[0][1], B[0][1], rtol, amp, floor)
            if not ok:
                show = (lambda v: f'{np.asarray(v).ravel()[:3]}') if typ == 'u' else repr
                r.fail(f'{what}-{typ}-value', f't={A[0][0]!r} restarts={k[2]} slot={k[3]}: serial {[show(v) for t, v in A]}, MPI {[show(v) for t, v in B]}')
                break


def prop_time(case, r):
    P = case['ranks']
    r.label(f'ranks{P}', f'levels{case["levels"]}', f'predict={case["predict"]}', 'jacobi' if case['jac'] else 'gauss-seidel', ('scripted-restarts-from-first' if case.get('from_first') else 'scripted-restarts') if case.get('script') else ('adaptivity-' + case['adapt']['flavor'] if case.get('adapt') else 'plain'))
    Tend = case['dt'] * case['nsteps'] - 0.3 * case['dt']
    # serial emulation
    desc, cparams = time_description(case, mpi=False)
    ctrl = controller_nonMPI(num_procs=P, controller_params=cparams, description=desc)
    prob = ctrl.MS[0].levels[0].prob
    u0 = prob.dtype_u(prob.init)
    u0[:] = np.resize(np.array(case['u0'], dtype=float), u0.shape)
    uend_s, stats_s = ctrl.run(u0=u0, t0=0.0, Tend=Tend)
    ser = summarize([stats_s])

    world = MPI.World(P, decisions=case['decisions'], seed=case['seed'], policy=case['policy'], max_ops=op_budget(stats_s, P, case['levels']))

    def rank_main(rank, comm):
        d, cp = time_description(case, mpi=True)
        c = controller_MPI(controller_params=cp, description=d, comm=comm)
        pr = c.S.levels[0].prob
        v0 = pr.dtype_u(pr.init)
        v0[:] = np.resize(np.array(case['u0'], dtype=float), v0.shape)
        ue, st_ = c.run(u0=v0, t0=0.0, Tend=Tend)
        return np.array(ue, copy=True), st_

    res = world.run(rank_main)
    stt = world.stats
    if P >= 2 and stt['preemptions'] >= 1 and stt['rendezvous'] >= 1:
        r.nontrivial([P, case['levels'], case['predict'], case['jac'], case['all_to_done'], case['nsteps'], case['restol'], bool(case.get('script')), case['decisions'][:20], case['seed'], case['policy']])
    for tag, msg in world.violations:
        r.fail(f'mpi-{tag}', msg)
    if world.budget_exhausted:
        r.fail('mpi-no-termination', f'the serial emulation finished after {len([k for k in stats_s if k.type == "niter"])} step attempts, the MPI run was stopped after {world.max_ops} MPI calls')
        return
    if world.timed_out:
        r.discard('simulation exceeded its wall-clock budget (inconclusive, never a verdict)')
        return
    if world.abort is not None:
        r.fail('mpi-run-aborted', str(world.abort)[:400])
        return
    par = summarize([x[1] for x in res if x is not None])
    amp = amplification(case, stats_s, [x[1] for x in res if x is not None])
    if amp * 64 * np.finfo(float).eps * (len(ser) + 2) > 1e-4:
        r.discard('adaptive run with an error estimate so small that rounding decides the step size')
        return
    compare_runs(r, ser, par, P, 'time', amp=amp)
    # value returned on every rank that takes part in the last block
    n_niter = len([k for k in ser if k.type == 'niter'])
    last_block_size = ((n_niter - 1) % P) + 1 if not (case.get('script') or case.get('adapt')) else None
    if last_block_size is not None:
        for rank in range(last_block_size):
            ue = res[rank][0]
            r.close(np.abs(np.asarray(ue) - np.asarray(uend_s)).max(), 1e-12 * max(1.0, np.abs(np.asarray(uend_s)).max()), 'time-returned-value', f'rank {rank} (member of the last block) returned a different end value')


@st.composite
def time_cases(draw, max_ranks=4):
    P = draw(st.sampled_from([1] + 2 * list(range(2, max_ranks + 1))))
    levels = draw(st.sampled_from([1, 1, 2, 2, 3]))
    n = draw(st.integers(1, 2))
    nblocks = draw(st.integers(1, 3))
    case = {
        'ranks': P, 'levels': levels, 'n': n, 'B': draw(S.mat(n)), 'g': draw(S.forcing(n)), 'u0': draw(S.vec(n)), 'num_nodes': draw(st.integers(2, 3)),
        'QI': draw(st.sampled_from(['IE', 'LU', 'MIN-SR-S'])), 'initial_guess': draw(st.sampled_from(['spread', 'copy', 'zero'])), 'dt': draw(st.sampled_from([0.1, 0.25, 0.05])),
        'restol': draw(st.sampled_from([-1.0, 1e-8, 1e-6])), 'maxiter': draw(st.sampled_from([1, 2, 3, 4, 5, 5, 12, 30])), 'nsweeps': [draw(st.integers(1, 2)) for _ in range(levels - 1)] + [1] if levels > 1 else [draw(st.integers(1, 2))],
        'jac': draw(st.booleans()), 'all_to_done': draw(st.integers(0, 3)) == 0, 'predict': draw(st.sampled_from([None, 'fine_only', 'pfasst_burnin'])),
        'nsteps': P * nblocks - draw(st.integers(0, max(0, P - 1))), 'decisions': draw(st.lists(st.integers(0, 7), max_size=120)), 'seed': draw(st.integers(0, 1000)),
        'policy': draw(st.sampled_from(['random', 'random', 'fifo'])),
    }  # fmt: skip
    case['nsteps'] = max(1, case['nsteps'])
    if levels == 1 and not case['jac']:
        case['nsweeps'] = [1]  # controller_MPI asserts one sweep in its Gauss-Seidel (it_coarse) branch: rejected, not compared
    if case['restol'] < 0:
        case['maxiter'] = min(case['maxiter'], 5)  # fixed iteration count: keep it cheap
    if draw(st.integers(0, 3)) == 0:
        script = []
        for _ in range(draw(st.integers(1, 3))):
            e = {'block': draw(st.integers(0, 3)), 'slot': draw(st.integers(0, P - 1)), 'restart': draw(st.booleans()), 'dt_new': None}
            if draw(st.booleans()):
                e['dt_new'] = float(case['dt'] * draw(st.sampled_from([0.5, 2.0, 0.75])))
            script.append(e)
        case['script'] = script
        case['from_first'] = draw(st.integers(0, 3)) == 0
    elif draw(st.integers(0, 3)) == 0:
        case['adapt'] = {'e_tol': draw(st.sampled_from([1e-2, 1e-4, 1e-6])), 'flavor': draw(st.sampled_from(['standard', 'standard', 'linearized']))}
        case['restol'] = -1.0
        case['maxiter'] = max(2, case['maxiter'])
        # preconditions asserted by Adaptivity / EstimateEmbeddedError: Gauss-Seidel multi-step mode, multi-step only on a single level
        case['jac'] = False
        if P > 1:
            case['levels'] = 1
        if case['levels'] == 1:
            case['nsweeps'] = [1]
    return case


# ------------------------------------------------------------------------------------------------ node-parallel sweepers
def prop_nodes(case, r):
    M = case['num_nodes']
    sw = case['sweeper']
    n = case['n']
    A = np.array(S.shape_matrix(case['B'], 'stable'))
    A2 = 0.3 * np.array(S.shape_matrix(case['B2'], 'rot'))
    r.label(sw, case['residual_type'], 'coll-update' if case['coll_update'] else 'last-node', f'ranks{M}', f'levels{case.get("levels", 1)}', 'adaptivity' if case.get('adapt') else 'fixed-dt')

    levels = case.get('levels', 1)
    per_level = (lambda X: [X * f for f in (1.0, 0.7, 0.5)[:levels]]) if levels >= 2 else (lambda X: X)

    def description(comm):
        sp = {'num_nodes': M, 'quad_type': case['quad_type'], 'QI': case['QI'], 'initial_guess': case['initial_guess'], 'do_coll_update': case['coll_update']}
        if sw == 'imex':
            pc, pp = F.LinVecIMEX, {'AI': per_level(A), 'AE': per_level(A2), 'gI': case['g'], 'gE': None}
            sc = imex_1st_order_MPI if comm is not None else imex_1st_order
            sp['QE'] = 'PIC'
        else:
            pc, pp = F.LinVec, {'A': per_level(A), 'g': case['g']}
            sc = generic_implicit_MPI if comm is not None else generic_implicit
        if comm is not None:
            sp['comm'] = comm
        cc = {}
        if case.get('adapt'):
            cc[Adaptivity] = {'e_tol': case['adapt'], 'dt_min': case['dt'] / 8}
            cc[BasicRestartingNonMPI] = {'max_restarts': 3, 'crash_after_max_restarts': False}
        d = {
            'problem_class': pc, 'problem_params': pp, 'sweeper_class': sc, 'sweeper_params': sp, 'convergence_controllers': cc,
            'level_params': {'dt': case['dt'], 'restol': case['restol'], 'residual_type': case['residual_type']}, 'step_params': {'maxiter': case['maxiter']},
        }  # fmt: skip
        if levels >= 2:
            d['space_transfer_class'] = nocoarse
            if comm is not None:
                d['base_transfer_class'] = base_transfer_MPI
        return d

    cparams = lambda: F.quiet_controller_params(hook_class=[LogSolution, LogStepSize, LogEmbeddedErrorEstimate] if case.get('adapt') else [LogSolution, LogStepSize], mssdc_jac=False)  # noqa: E731
    Tend = case['dt'] * case['nsteps']
    ctrl = controller_nonMPI(num_procs=1, controller_params=cparams(), description=description(None))
    prob = ctrl.MS[0].levels[0].prob
    u0 = prob.dtype_u(prob.init)
    u0[:] = np.resize(np.array(case['u0'], dtype=float), u0.shape)
    try:
        uend_s, stats_s = ctrl.run(u0=u0, t0=0.0, Tend=Tend)
    except ZeroDivisionError:
        if case['residual_type'].endswith('rel'):
            r.discard('relative residual undefined: a step start value is exactly zero')
            return
        raise
    ser = summarize([stats_s])
    world = MPI.World(M, decisions=case['decisions'], seed=case['seed'], policy=case['policy'], max_ops=op_budget(stats_s, M, case.get('levels', 1)))

    def rank_main(rank, comm):
        c = controller_nonMPI(num_procs=1, controller_params=cparams(), description=description(comm))
        pr = c.MS[0].levels[0].prob
        v0 = pr.dtype_u(pr.init)
        v0[:] = np.resize(np.array(case['u0'], dtype=float), v0.shape)
        ue, st_ = c.run(u0=v0, t0=0.0, Tend=Tend)
        return np.array(ue, copy=True), st_

    res = world.run(rank_main)
    if M >= 2 and world.stats['preemptions'] >= 1:
        r.nontrivial([sw, M, case['QI'], case['residual_type'], case['coll_update'], case['nsteps'], case.get('levels', 1), case.get('adapt'), case['decisions'][:20], case['seed']])
    for tag, msg in world.violations:
        r.fail(f'mpi-{tag}', msg)
    if world.budget_exhausted:
        r.fail('mpi-no-termination', f'the serial emulation finished after {len([k for k in stats_s if k.type == "niter"])} step attempts, the MPI run was stopped after {world.max_ops} MPI calls')
        return
    if world.timed_out:
        r.discard('simulation exceeded its wall-clock budget (inconclusive, never a verdict)')
        return
    if world.abort is not None:
        r.fail('mpi-run-aborted', str(world.abort)[:400])
        return
    amp = amplification(case, stats_s, [x[1] for x in res if x is not None])
    if amp * 64 * np.finfo(float).eps * (len(ser) + 2) > 1e-4:
        r.discard('adaptive run with an error estimate so small that rounding decides the step size')
        return
    for rank in range(M):
        par = summarize([res[rank][1]])
        compare_runs(r, ser, par, M, 'nodes', amp=amp)
        rtol = max(1e-12, 64 * np.finfo(float).eps * amp * (len(ser) + 2))
        r.close(np.abs(res[rank][0] - np.asarray(uend_s)).max(), rtol * max(1.0, np.abs(np.asarray(uend_s)).max()), 'nodes-returned-value', f'rank {rank}')


@st.composite
def node_cases(draw):
    sw = draw(st.sampled_from(['implicit', 'implicit', 'imex']))
    M = draw(st.sampled_from([1, 2, 2, 3, 3, 4, 4]))
    n = draw(st.integers(1, 3))
    cu = draw(st.booleans()) if sw == 'implicit' else False
    levels = draw(st.sampled_from([1, 1, 2, 2, 3]))
    adapt = draw(st.sampled_from([None, None, 1e-3, 1e-5]))
    case = {
        'sweeper': sw, 'num_nodes': M, 'n': n, 'B': draw(S.mat(n)), 'B2': draw(S.mat(n)), 'g': draw(S.forcing(n)), 'u0': draw(S.vec(n, 0.2, 2.0)),
        'quad_type': 'RADAU-RIGHT', 'QI': draw(st.sampled_from(['MIN-SR-S', 'MIN-SR-NS', 'IEpar', 'MIN-SR-FLEX', 'Qpar'])), 'initial_guess': draw(st.sampled_from(['spread', 'copy', 'zero'])),
        'coll_update': cu, 'residual_type': draw(st.sampled_from(['full_abs', 'last_abs', 'full_rel', 'last_rel'])), 'restol': draw(st.sampled_from([-1.0, 1e-8])),
        'maxiter': draw(st.integers(1, 5)), 'dt': draw(st.sampled_from([0.1, 0.25])), 'nsteps': draw(st.integers(1, 3)), 'decisions': draw(st.lists(st.integers(0, 7), max_size=80)),
        'seed': draw(st.integers(0, 1000)), 'policy': draw(st.sampled_from(['random', 'fifo'])), 'levels': levels, 'adapt': adapt,
    }  # fmt: skip
    if adapt:
        case['restol'] = -1.0
        case['maxiter'] = max(2, case['maxiter'])
        case['levels'] = 1 if M == 1 else case['levels']
    return case


# ------------------------------------------------------------------------------------------------ space-time (time ranks x node ranks)
def prop_spacetime(case, r):
    """controller_MPI on a time communicator, generic_implicit_MPI / imex_1st_order_MPI on a node communicator, both split from one world"""
    Pt, M = case['ranks_time'], case['num_nodes']
    sw = case['sweeper']
    n = case['n']
    A = np.array(S.shape_matrix(case['B'], 'stable'))
    A2 = 0.3 * np.array(S.shape_matrix(case['B2'], 'rot'))
    r.label(sw, f'time{Pt}', f'nodes{M}', 'jacobi' if case['jac'] else 'gauss-seidel', 'all_to_done' if case['all_to_done'] else 'individual')

    def description(comm_nodes):
        sp = {'num_nodes': M, 'quad_type': 'RADAU-RIGHT', 'QI': case['QI'], 'initial_guess': case['initial_guess']}
        if sw == 'imex':
            pc, pp = F.LinVecIMEX, {'AI': A, 'AE': A2, 'gI': case['g'], 'gE': None}
            sc = imex_1st_order_MPI if comm_nodes is not None else imex_1st_order
            sp['QE'] = 'PIC'
        else:
            pc, pp = F.LinVec, {'A': A, 'g': case['g']}
            sc = generic_implicit_MPI if comm_nodes is not None else generic_implicit
        if comm_nodes is not None:
            sp['comm'] = comm_nodes
        return {
            'problem_class': pc, 'problem_params': pp, 'sweeper_class': sc, 'sweeper_params': sp,
            'level_params': {'dt': case['dt'], 'restol': case['restol'], 'nsweeps': 1}, 'step_params': {'maxiter': case['maxiter']},
        }  # fmt: skip

    cparams = lambda: F.quiet_controller_params(hook_class=[LogSolution, LogStepSize], mssdc_jac=case['jac'], all_to_done=case['all_to_done'])  # noqa: E731
    Tend = case['dt'] * case['nsteps'] - 0.3 * case['dt']
    ctrl = controller_nonMPI(num_procs=Pt, controller_params=cparams(), description=description(None))
    prob = ctrl.MS[0].levels[0].prob
    u0 = prob.dtype_u(prob.init)
    u0[:] = np.resize(np.array(case['u0'], dtype=float), u0.shape)
    uend_s, stats_s = ctrl.run(u0=u0, t0=0.0, Tend=Tend)
    ser = summarize([stats_s])
    world = MPI.World(Pt * M, decisions=case['decisions'], seed=case['seed'], policy=case['policy'], max_ops=op_budget(stats_s, Pt * M))

    def rank_main(rank, comm):
        # ranks are laid out node-major: rank = time_rank * M + node_rank
        comm_time = comm.Split(color=rank % M, key=rank)
        comm_nodes = comm.Split(color=rank // M, key=rank)
        c = controller_MPI(controller_params=cparams(), description=description(comm_nodes), comm=comm_time)
        pr = c.S.levels[0].prob
        v0 = pr.dtype_u(pr.init)
        v0[:] = np.resize(np.array(case['u0'], dtype=float), v0.shape)
        ue, st_ = c.run(u0=v0, t0=0.0, Tend=Tend)
        return np.array(ue, copy=True), st_

    res = world.run(rank_main)
    if Pt >= 2 and M >= 2 and world.stats['preemptions'] >= 1:
        r.nontrivial([sw, Pt, M, case['QI'], case['jac'], case['all_to_done'], case['nsteps'], case['restol'], case['decisions'][:20], case['seed']])
    for tag, msg in world.violations:
        r.fail(f'mpi-{tag}', msg)
    if world.budget_exhausted:
        r.fail('mpi-no-termination', f'the serial emulation finished after {len([k for k in stats_s if k.type == "niter"])} step attempts, the MPI run was stopped after {world.max_ops} MPI calls')
        return
    if world.timed_out:
        r.discard('simulation exceeded its wall-clock budget (inconclusive, never a verdict)')
        return
    if world.abort is not None:
        r.fail('mpi-run-aborted', str(world.abort)[:400])
        return
    # every node rank of a time rank logs the same records: compare each column of node ranks with the serial run
    for node_rank in range(M):
        par = summarize([res[t * M + node_rank][1] for t in range(Pt) if res[t * M + node_rank] is not None])
        compare_runs(r, ser, par, Pt, 'spacetime')
    n_niter = len([k for k in ser if k.type == 'niter'])
    last_block_size = ((n_niter - 1) % Pt) + 1
    for t in range(last_block_size):
        for node_rank in range(M):
            ue = res[t * M + node_rank][0]
            r.close(np.abs(np.asarray(ue) - np.asarray(uend_s)).max(), 1e-12 * max(1.0, np.abs(np.asarray(uend_s)).max()), 'spacetime-returned-value', f'time rank {t}, node rank {node_rank}')


@st.composite
def spacetime_cases(draw):
    Pt = draw(st.sampled_from([1, 2, 2, 3]))
    M = draw(st.sampled_from([1, 2, 2, 3]))
    n = draw(st.integers(1, 2))
    nblocks = draw(st.integers(1, 3))
    jac = draw(st.booleans())
    return {
        'ranks_time': Pt, 'num_nodes': M, 'sweeper': draw(st.sampled_from(['implicit', 'implicit', 'imex'])), 'n': n, 'B': draw(S.mat(n)), 'B2': draw(S.mat(n)), 'g': draw(S.forcing(n)),
        'u0': draw(S.vec(n, 0.2, 2.0)), 'QI': draw(st.sampled_from(['MIN-SR-S', 'MIN-SR-NS', 'IEpar'])), 'initial_guess': draw(st.sampled_from(['spread', 'copy', 'zero'])),
        'dt': draw(st.sampled_from([0.1, 0.25])), 'restol': draw(st.sampled_from([-1.0, 1e-8, 1e-6])), 'maxiter': draw(st.integers(1, 4)), 'jac': jac, 'all_to_done': draw(st.integers(0, 3)) == 0,
        'nsteps': max(1, Pt * nblocks - draw(st.integers(0, max(0, Pt - 1)))), 'decisions': draw(st.lists(st.integers(0, 7), max_size=120)), 'seed': draw(st.integers(0, 1000)),
        'policy': draw(st.sampled_from(['random', 'random', 'fifo'])),
    }  # fmt: skip



def known_match(fid, clause, case, failure):
    tag, msg = failure
    if fid == 'F25' and clause == 'time-parallel' and tag in ('mpi-collective-mismatch', 'mpi-run-aborted'):
        # mismatched collectives of BasicRestartingMPI(restart_from_first_step=True) when ranks finish in different iterations
        return bool(case.get('from_first')) and bool(case.get('script')) and not case['all_to_done'] and case['ranks'] >= 2 and ('allgather while others call bcast' in msg or 'bcast while others call allgather' in msg or tag == 'mpi-run-aborted')
    return False


def clauses(tier):
    return [
        Clause('simulator-selftest', prop_selftest, enumerate=selftest_enum, exhaustive=True),
        Clause('time-parallel', prop_time, strategy=time_cases(4 if tier == 'quick' else 5), examples={'quick': 400, 'thorough': 20000}),
        Clause('node-parallel', prop_nodes, strategy=node_cases(), examples={'quick': 300, 'thorough': 10000}),
        Clause('space-time', prop_spacetime, strategy=spacetime_cases(), examples={'quick': 200, 'thorough': 6000}),
    ]
