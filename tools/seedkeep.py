#!/venv/bin/python
"""Store a confirmed seeded change under /verif/seeded/<PROP>-<n>/ (patch.diff, demo.py, meta.json).
usage: tools/seedkeep.py <PROP> <outdir> <n> '<json result of seedcheck>' '<tests I ran + result>'"""
import json, os, shutil, sys
prop, outdir, n, res, tests = sys.argv[1:6]
d = f'/verif/seeded/{prop}-{n}'
os.makedirs(d, exist_ok=True)
shutil.copy(os.path.join(outdir, f'patch_{n}.diff'), os.path.join(d, 'patch.diff'))
shutil.copy(os.path.join(outdir, f'demo_{n}.py'), os.path.join(d, 'demo.py'))
am = {}
try:
    am = json.load(open(os.path.join(outdir, f'meta_{n}.json')))
except Exception:
    pass
meta = {'property': prop, 'summary': am.get('summary'), 'needs': am.get('needs'), 'author_tests_run': am.get('tests_run'),
        'confirmed_by_me': json.loads(res), 'tests_rerun_by_me': tests}
json.dump(meta, open(os.path.join(d, 'meta.json'), 'w'), indent=1)
print('kept', d)
