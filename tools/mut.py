#!/venv/bin/python
"""Sensitivity helper (not a registered check): copy /repo/pySDC to a scratch dir under /dev/shm, replace one
string in one file, run `./check <ID> <tier>` against it, delete the copy.

usage: tools/mut.py <ID> <relpath> <old> <new> [tier] [--count N]
       tools/mut.py <ID> --patch <file.diff> [tier]
Prints the check's exit code; exit 0 of this tool means the mutant was DETECTED (check exit 1).
"""
import os, shutil, subprocess, sys, tempfile

def main():
    a = sys.argv[1:]
    cid = a[0]
    scratch = tempfile.mkdtemp(prefix='pysdc-mut-', dir='/dev/shm')
    try:
        shutil.copytree('/repo/pySDC', os.path.join(scratch, 'pySDC'), ignore=shutil.ignore_patterns('__pycache__', 'playgrounds', 'tutorial', 'data'))
        if a[1] == '--patch':
            tier = a[3] if len(a) > 3 else 'quick'
            subprocess.check_call(['patch', '-p1', '-s', '-d', scratch, '-i', os.path.abspath(a[2])])
        else:
            rel, old, new = a[1], a[2], a[3]
            tier = a[4] if len(a) > 4 else 'quick'
            p = os.path.join(scratch, rel)
            src = open(p).read()
            n = src.count(old)
            if n == 0:
                print('MUT: pattern not found'); return 3
            if n > 1 and '--all' not in a:
                print(f'MUT: pattern found {n} times, replacing the first')
            open(p, 'w').write(src.replace(old, new) if '--all' in a else src.replace(old, new, 1))
        env = dict(os.environ, VERIF_REPO_ROOT=scratch, VERIF_OUT=os.path.join(scratch, 'out'))
        env.setdefault('VERIF_SHRINK_S', '10')
        rc = subprocess.call(['./check', cid, tier], cwd='/verif', env=env)
        print(f'MUT: check exit {rc} ->', 'DETECTED' if rc == 1 else ('HARNESS-ERROR' if rc == 2 else 'MISSED'))
        return 0 if rc == 1 else 1
    finally:
        shutil.rmtree(scratch, ignore_errors=True)

sys.exit(main())
