"""C02, second part: Boris-type second-order sweeper, Runge-Kutta-Nystrom / velocity-Verlet sweepers, the multistep
"sweepers" and the DAE project sweepers (fully implicit, semi-implicit, Runge-Kutta DAE).

Oracles
  boris   node-by-node algebra from independently built matrices (QI, QE, QT = (QI+QE)/2, Qx = QE QT + QE o QE / 2,
          S/ST/Sx node-to-node differences, SQ = S Q); the velocity update is NOT re-done with the Boris rotation but by
          solving the 3x3 linear system the rotation is the solution of (trapezoidal rule in the magnetic term).
  rkn     textbook Nystrom stage equations with the class's two tableaux, velocity-Verlet in its closed form.
  multistep   -sum alpha_i u_i + sum Dt_i beta_i f_i solved "implicit Euler style" with the dense fixture matrix.
  dae     validity predicate: after the sweep every node satisfies F(u0 + dt((Q-QD) U'_old + QD U'_new)_m, U'_new_m, t_m) = 0
          up to the Newton tolerance and u_m = u0 + dt (Q U'_new)_m exactly; RK-DAE: stage equations of the tableau.
"""

import numpy as np
from hypothesis import strategies as st

from vlib import strats as S
from vlib import fixtures as F


def _warm_up(L, factor):
    from checks.c02 import warm_up

    warm_up(L, factor)

from pySDC.core.step import Step
from pySDC.implementations.problem_classes.PenningTrap_3D import penningtrap
from pySDC.implementations.sweeper_classes.boris_2nd_order import boris_2nd_order
from pySDC.implementations.sweeper_classes.Runge_Kutta_Nystrom import RKN, Velocity_Verlet
from pySDC.implementations.sweeper_classes import Multistep as MSmod
from pySDC.implementations.datatype_classes.particles import particles, fields, acceleration


def _np(x):
    return np.array(x, dtype=float)


class DrivenTrap(penningtrap):
    """Penning trap with an additional homogeneous, time-dependent electric field E_d cos(w t): a time-dependent force,
    which the sweepers' interfaces (eval_f(u, t), build_f(f, u, t)) are written for."""

    def __init__(self, omega_B, omega_E, u0, nparts, sig, drive=None):
        super().__init__(omega_B, omega_E, u0, nparts, sig)
        self.drive = None if drive is None else (np.array(drive[:3], dtype=float), float(drive[3]))

    def eval_f(self, part, t):
        f = super().eval_f(part, t)
        if self.drive is not None:
            f.elec[:] += (self.drive[0] * np.cos(self.drive[1] * t))[:, None]
        return f


def cross_matrix(t):
    """matrix C with C v = v x t"""
    return np.array([[0.0, t[2], -t[1]], [-t[2], 0.0, t[0]], [t[1], -t[0], 0.0]])


def _trap_level(case, sweeper_class, sweeper_params):
    N = case['nparts']
    u0 = np.array([[1.0, 0.0, 0.0], [0.0, 0.0, 0.0], [1], [1]], dtype=object)
    pp = {'omega_B': case['omega_B'], 'omega_E': case['omega_E'], 'u0': u0, 'nparts': N, 'sig': case['sig'], 'drive': np.array(case['drive']) if case.get('drive') else None}
    desc = {'problem_class': DrivenTrap, 'problem_params': pp, 'sweeper_class': sweeper_class, 'sweeper_params': sweeper_params, 'level_params': {'dt': case['dt']}, 'step_params': {'maxiter': 1}}
    step = Step(desc)
    return step, step.levels[0]


def _part(P, X, V):
    u = P.dtype_u(P.init)
    u.pos[:] = X
    u.vel[:] = V
    u.q[:] = 1.0
    u.m[:] = 1.0
    return u


def _acc(P, f, u):
    """a (E + v x B) per particle, independent of build_f"""
    out = np.zeros_like(np.asarray(u.pos))
    for n in range(out.shape[1]):
        a = u.q[n] / u.m[n]
        out[:, n] = a * (np.asarray(f.elec)[:, n] + np.cross(np.asarray(u.vel)[:, n], np.asarray(f.magn)[:, n]))
    return out


# ------------------------------------------------------------------------------------------------ Boris
def prop_boris(case, r):
    sp = dict(case['nodes'])
    sp['QI'], sp['QE'] = 'IE', 'EE'
    step, L = _trap_level(case, boris_2nd_order, sp)
    P, sweep = L.prob, L.sweep
    coll = sweep.coll
    M, dt, t0, N = coll.num_nodes, L.dt, case['t0'], case['nparts']
    r.label('boris', case['nodes']['quad_type'], f'nparts{N}', 'tau' if case['tau'] is not None else 'no-tau', 'driven' if case.get('drive') else 'autonomous')
    Q = np.asarray(coll.Qmat, float)
    w = np.asarray(coll.weights, float)
    nodes = np.asarray(coll.nodes, float)
    d = np.diff(np.concatenate([[0.0], nodes]))
    # matrices of the statement, built here from the nodes only
    QI = np.zeros((M + 1, M + 1))
    QE = np.zeros((M + 1, M + 1))
    for m in range(1, M + 1):
        QI[m, 1 : m + 1] = d[:m]
        QE[m, 0:m] = d[:m]
    QT = 0.5 * (QI + QE)
    Qx = QE @ QT + 0.5 * QE * QE
    dif = lambda A: np.vstack([A[0:1], A[1:] - A[:-1]])  # noqa: E731
    Sm, ST, Sx = dif(Q), dif(QT), dif(Qx)
    SQ = Sm @ Q
    QQ = Q @ Q
    for name, ref in (('S', Sm), ('ST', ST), ('SQ', SQ), ('Sx', Sx), ('QQ', QQ), ('QT', QT), ('Qx', Qx)):
        r.close(np.abs(np.asarray(getattr(sweep, name)) - ref).max(), 1e-13, f'boris-matrix-{name}')
    L.status.time = t0
    L.status.unlocked = True
    L.status.sweep = 1
    X, V = _np(case['X']), _np(case['V'])  # (M+1, 3, N)
    tm = np.concatenate([[t0], t0 + dt * nodes])
    for m in range(M + 1):
        L.u[m] = _part(P, X[m], V[m])
        L.f[m] = P.eval_f(L.u[m], tm[m])
    tau = None
    if case['tau'] is not None:
        tau = _np(case['tau'])  # (M, 2, 3, N)
        for m in range(M):
            L.tau[m] = _part(P, tau[m, 0], tau[m, 1])
    if M >= 2 and np.abs(X[1:] - X[:1]).max() > 0:
        r.nontrivial(['boris', case['nodes'], N, tau is not None, bool(case.get('drive'))])
    Fold = np.array([_acc(P, L.f[m], L.u[m]) for m in range(M + 1)])  # (M+1, 3, N)
    # the problem's build_f must be what the oracle uses as right-hand side
    bf = np.array([np.asarray(P.build_f(L.f[m], L.u[m], tm[m])) for m in range(M + 1)])
    r.close(np.abs(bf - Fold).max(), 1e-12 * max(1.0, np.abs(Fold).max()), 'boris-build_f')
    x0, v0 = X[0].copy(), V[0].copy()
    sc = max(1.0, np.abs(Fold).max(), np.abs(V).max(), np.abs(X).max())
    # integrate(): pos = dt^2 QQ F + dt Q 1 v0, vel = dt Q F (nodes 1..M only)
    integ = sweep.integrate()
    ip = np.array([np.asarray(p.pos) for p in integ])
    iv = np.array([np.asarray(p.vel) for p in integ])
    ep = dt * dt * np.einsum('mj,jkn->mkn', QQ[1:, 1:], Fold[1:]) + dt * Q[1:, 1:].sum(axis=1)[:, None, None] * v0[None]
    evl = dt * np.einsum('mj,jkn->mkn', Q[1:, 1:], Fold[1:])
    r.close(np.abs(ip - ep).max(), 1e-12 * sc * M, 'boris-integrate-pos')
    r.close(np.abs(iv - evl).max(), 1e-12 * sc * M, 'boris-integrate-vel')

    _warm_up(L, case.get('warm'))
    sweep.update_nodes()

    Xn = np.zeros((M + 1, 3, N))
    Vn = np.zeros((M + 1, 3, N))
    Fn = np.zeros((M + 1, 3, N))
    En = np.zeros((M + 1, 3, N))
    Bn = np.zeros((M + 1, 3, N))
    Xn[0], Vn[0], Fn[0] = x0, v0, Fold[0]
    En[0], Bn[0] = np.asarray(L.f[0].elec), np.asarray(L.f[0].magn)
    for m in range(M):
        kp = dt * dt * np.einsum('j,jkn->kn', SQ[m + 1] - Sx[m + 1], Fold)
        kv = dt * np.einsum('j,jkn->kn', Sm[m + 1] - ST[m + 1], Fold)
        if tau is not None:
            kp = kp + tau[m, 0] - (tau[m - 1, 0] if m > 0 else 0.0)
            kv = kv + tau[m, 1] - (tau[m - 1, 1] if m > 0 else 0.0)
        Xn[m + 1] = Xn[m] + dt * d[m] * v0 + kp + dt * dt * np.einsum('j,jkn->kn', Sx[m + 1, : m + 1], Fn[: m + 1])
        fm = P.eval_f(_part(P, Xn[m + 1], Vn[m]), tm[m + 1])  # fields depend on the position (and time) only
        En[m + 1], Bn[m + 1] = np.asarray(fm.elec), np.asarray(fm.magn)
        h = dt * QI[m + 1, m + 1]
        for n in range(N):
            a = 1.0
            t = h / 2 * a * Bn[m + 1][:, n]
            C = cross_matrix(t)
            c = kv[:, n] + h / 2 * a * np.cross(Vn[m][:, n], Bn[m][:, n] - Bn[m + 1][:, n])
            rhs = Vn[m][:, n] + h * a * 0.5 * (En[m][:, n] + En[m + 1][:, n]) + c + C @ Vn[m][:, n]
            Vn[m + 1][:, n] = np.linalg.solve(np.eye(3) - C, rhs)
            Fn[m + 1][:, n] = a * (En[m + 1][:, n] + np.cross(Vn[m + 1][:, n], Bn[m + 1][:, n]))
    gotX = np.array([np.asarray(L.u[m].pos) for m in range(M + 1)])
    gotV = np.array([np.asarray(L.u[m].vel) for m in range(M + 1)])
    sc2 = max(sc, np.abs(Xn).max(), np.abs(Vn).max(), np.abs(Fn).max())
    r.close(np.abs(gotX - Xn).max(), 1e-10 * sc2 * M, 'boris-sweep-pos', lambda: f'{case["nodes"]} dt={dt} nparts={N}')
    r.close(np.abs(gotV - Vn).max(), 1e-10 * sc2 * M, 'boris-sweep-vel', lambda: f'{case["nodes"]} dt={dt} nparts={N}')
    gotE = np.array([np.asarray(L.f[m].elec) for m in range(M + 1)])
    r.close(np.abs(gotE - En).max(), 1e-10 * sc2 * M * max(1.0, case['omega_E'] ** 2), 'boris-f-consistent')
    r.check(np.array_equal(gotX[0], x0) and np.array_equal(gotV[0], v0), 'u0-modified', 'boris sweep changed u[0]')
    sweep.compute_end_point()
    Fg = np.array([_acc(P, L.f[m], L.u[m]) for m in range(1, M + 1)])
    qQ = w @ Q[1:, 1:]
    xe = x0 + dt * dt * np.einsum('j,jkn->kn', qQ, Fg) + dt * w.sum() * v0 + (tau[-1, 0] if tau is not None else 0.0)
    ve = v0 + dt * np.einsum('j,jkn->kn', w, Fg) + (tau[-1, 1] if tau is not None else 0.0)
    r.close(np.abs(np.asarray(L.uend.pos) - xe).max(), 1e-10 * sc2 * M, 'boris-endpoint-pos')
    r.close(np.abs(np.asarray(L.uend.vel) - ve).max(), 1e-10 * sc2 * M, 'boris-endpoint-vel')


@st.composite
def trap_common(draw, with_drive=True):
    N = draw(st.sampled_from([1, 1, 2]))
    case = {
        'nparts': N, 'omega_B': draw(st.sampled_from([0.0, 5.0, 25.0])) * draw(st.sampled_from([1.0, 0.37])), 'omega_E': draw(st.sampled_from([0.0, 1.0, 4.9])),
        'sig': draw(st.sampled_from([0.1, 0.5])), 'dt': draw(S.log_uniform(-3, -0.5)), 't0': draw(S.small_float(-2, 5)),
        'drive': [draw(S.small_float()), draw(S.small_float()), draw(S.small_float()), draw(st.sampled_from([0.7, 3.0, 11.0]))] if with_drive and draw(st.booleans()) else None,
    }  # fmt: skip
    return case


def _pv(draw, N, scale=1.0):
    return [[[draw(S.small_float()) * scale for _ in range(N)] for _ in range(3)] for _ in range(2)]


@st.composite
def boris_cases(draw, max_nodes=5):
    case = draw(trap_common())
    nodes = draw(S.node_sets(max_nodes=max_nodes))
    M, N = nodes['num_nodes'], case['nparts']
    case['nodes'] = nodes
    pv = [_pv(draw, N) for _ in range(M + 1)]
    # keep two particles apart (the regularised Coulomb term is smooth anyway)
    case['X'] = [[[pv[m][0][k][n] + (2.0 * n if k == 0 else 0.0) for n in range(N)] for k in range(3)] for m in range(M + 1)]
    case['V'] = [pv[m][1] for m in range(M + 1)]
    case['tau'] = [_pv(draw, N, 0.1) for _ in range(M)] if draw(st.booleans()) else None
    case['warm'] = draw(st.sampled_from([None, None, 0.5, 3.0]))
    return case


# ------------------------------------------------------------------------------------------------ Runge-Kutta-Nystrom
def prop_rkn(case, r):
    cls = {'RKN': RKN, 'Velocity_Verlet': Velocity_Verlet}[case['cls']]
    step, L = _trap_level(case, cls, {})
    P, sweep = L.prob, L.sweep
    dt, t0, N = L.dt, case['t0'], case['nparts']
    r.label(case['cls'], f'nparts{N}', 'driven' if case.get('drive') else 'autonomous')
    r.nontrivial([case['cls'], N, bool(case.get('drive')), case['omega_B'] != 0, case['omega_E'] != 0])
    X0, V0 = _np(case['X0']), _np(case['V0'])
    L.status.time = t0
    L.u[0] = _part(P, X0, V0)
    sweep.predict()
    L.status.sweep = 1
    sweep.update_nodes()
    sweep.compute_end_point()

    def Fxv(x, v, t):
        u = _part(P, x, v)
        return _acc(P, P.eval_f(u, t), u)

    sc = max(1.0, np.abs(X0).max(), np.abs(V0).max())
    if case['cls'] == 'RKN':
        c = cls.nodes
        A, Ab, b, bb = cls.matrix, cls.matrix_bar, cls.weights, cls.weights_bar
        s = len(c)
        Xs, Vs, Fs = [], [], []
        for i in range(s):
            x = X0 + c[i] * dt * V0 + dt * dt * sum(Ab[i, j] * Fs[j] for j in range(i))
            v = V0 + dt * sum(A[i, j] * Fs[j] for j in range(i))
            Xs.append(x)
            Vs.append(v)
            Fs.append(Fxv(x, v, t0 + c[i] * dt))
        xe = X0 + dt * V0 + dt * dt * sum(bb[j] * Fs[j] for j in range(s))
        ve = V0 + dt * sum(b[j] * Fs[j] for j in range(s))
        sc = max(sc, max(np.abs(f).max() for f in Fs))
        for i in range(s):
            r.close(np.abs(np.asarray(L.u[i + 1].pos) - Xs[i]).max(), 1e-11 * sc, 'rkn-stage-pos', lambda: f'stage {i + 1} dt={dt} driven={bool(case.get("drive"))}')
            r.close(np.abs(np.asarray(L.u[i + 1].vel) - Vs[i]).max(), 1e-11 * sc, 'rkn-stage-vel', lambda: f'stage {i + 1} dt={dt} driven={bool(case.get("drive"))}')
    else:
        F0 = Fxv(X0, V0, t0)
        xe = X0 + dt * V0 + 0.5 * dt * dt * F0
        f0 = P.eval_f(_part(P, X0, V0), t0)
        f1 = P.eval_f(_part(P, xe, V0), t0 + dt)
        ve = np.zeros_like(V0)
        for n in range(N):
            t = dt / 2 * np.asarray(f1.magn)[:, n]
            C = cross_matrix(t)
            cc = dt / 2 * np.cross(V0[:, n], np.asarray(f0.magn)[:, n] - np.asarray(f1.magn)[:, n])
            rhs = V0[:, n] + dt * 0.5 * (np.asarray(f0.elec)[:, n] + np.asarray(f1.elec)[:, n]) + cc + C @ V0[:, n]
            ve[:, n] = np.linalg.solve(np.eye(3) - C, rhs)
        sc = max(sc, np.abs(F0).max())
    r.close(np.abs(np.asarray(L.uend.pos) - xe).max(), 1e-11 * sc, 'rkn-end-pos', lambda: f'{case["cls"]} dt={dt} driven={bool(case.get("drive"))}')
    r.close(np.abs(np.asarray(L.uend.vel) - ve).max(), 1e-11 * sc, 'rkn-end-vel', lambda: f'{case["cls"]} dt={dt} driven={bool(case.get("drive"))}')
    r.check(np.array_equal(np.asarray(L.u[0].pos), X0) and np.array_equal(np.asarray(L.u[0].vel), V0), 'u0-modified', 'RKN sweep changed u[0]')


@st.composite
def rkn_cases(draw):
    case = draw(trap_common())
    N = case['nparts']
    case['cls'] = draw(st.sampled_from(['RKN', 'RKN', 'Velocity_Verlet']))
    pv = _pv(draw, N)
    case['X0'] = [[pv[0][k][n] + (2.0 * n if k == 0 else 0.0) for n in range(N)] for k in range(3)]
    case['V0'] = pv[1]
    return case


# ------------------------------------------------------------------------------------------------ multistep
MULTISTEP = ['AdamsBashforthExplicit1Step', 'BackwardEuler', 'AdamsMoultonImplicit1Step', 'AdamsMoultonImplicit2Step']


def prop_multistep(case, r):
    from pySDC.implementations.controller_classes.controller_nonMPI import controller_nonMPI
    from pySDC.implementations.hooks.log_solution import LogSolution
    from pySDC.helpers.stats_helper import get_sorted

    cls = getattr(MSmod, case['cls'])
    n = case['n']
    A = _np(case['A'])
    desc = {'problem_class': F.LinVec, 'problem_params': {'A': A, 'g': case['g']}, 'sweeper_class': cls, 'sweeper_params': {}, 'level_params': {'dt': case['dt'], 'restol': -1.0}, 'step_params': {'maxiter': 1}}
    ctrl = controller_nonMPI(num_procs=1, controller_params=F.quiet_controller_params(hook_class=[LogSolution]), description=desc)
    P = ctrl.MS[0].levels[0].prob
    u0 = P.dtype_u(P.init)
    u0[:] = _np(case['u0'])
    t0, dt, nsteps = case['t0'], case['dt'], case['nsteps']
    r.label(case['cls'], f'steps{nsteps}', 'forced' if case['g'] else 'homogeneous')
    try:
        uend, stats = ctrl.run(u0=u0, t0=t0, Tend=t0 + (nsteps - 0.5) * dt)
    except np.linalg.LinAlgError:
        r.discard('step system of the dense fixture exactly singular')
        return
    us = get_sorted(stats, type='u', sortby='time')
    if not r.check(len(us) == nsteps, 'multistep-step-count', f'{len(us)} logged solutions for {nsteps} steps'):
        return
    if nsteps >= 2:
        r.nontrivial([case['cls'], n, nsteps, bool(case['g'])])
    g = P.forcing
    f = lambda u, t: A @ u + g(t)  # noqa: E731
    alpha, beta = list(cls.alpha), list(cls.beta)
    k = len(alpha)
    # the coefficients themselves: order conditions of the documented scheme (forward / backward Euler: order 1, trapezoidal rule: 2,
    # two-step Adams-Moulton "third order implicit scheme": 3) on an equidistant grid ..., t_n = 0, t_{n+1} = 1
    order = {'AdamsBashforthExplicit1Step': 1, 'BackwardEuler': 1, 'AdamsMoultonImplicit1Step': 2, 'AdamsMoultonImplicit2Step': 3}[case['cls']]
    taus = np.arange(-(k - 1), 2, dtype=float)  # times of u_{n-k+1}, ..., u_n, u_{n+1}
    r.close(abs(sum(alpha) + 1.0), 1e-14, 'multistep-consistency', f'{case["cls"]}: alpha {alpha} does not sum to -1')
    for q in range(order):
        lhs = sum(beta[j] * taus[j] ** q for j in range(k + 1))
        ex = (1.0 - sum(-alpha[j] * taus[j] ** (q + 1) for j in range(k))) / (q + 1)
        r.close(abs(lhs - ex), 1e-14, 'multistep-order-condition', lambda: f'{case["cls"]}: sum beta_j tau_j^{q} = {lhs!r}, expected {ex!r}')
    hist_t, hist_u = [t0], [_np(case['u0'])]
    I = np.eye(n)
    for i in range(nsteps):
        tn = hist_t[-1] + dt
        if len(hist_t) < k:
            # documented start-up of the 2-step Adams-Moulton scheme: trapezoidal rule
            rhs = hist_u[-1] + dt / 2 * f(hist_u[-1], hist_t[-1])
            un = np.linalg.solve(I - dt / 2 * A, rhs + dt / 2 * g(tn))
        else:
            ts = hist_t[-k:]
            dts = [ts[j + 1] - ts[j] for j in range(k - 1)] + [tn - ts[-1]]
            rhs = np.zeros(n)
            for j in range(k):
                rhs = rhs - alpha[j] * hist_u[-k + j] + dts[j] * beta[j] * f(hist_u[-k + j], ts[j])
            un = np.linalg.solve(I - dt * beta[-1] * A, rhs + dt * beta[-1] * g(tn))
        got = np.asarray(us[i][1], dtype=float).ravel()
        kappa = np.linalg.cond(I - dt * max(abs(beta[-1]), 0.5) * A)
        if not r.close(np.abs(got - un).max(), 1e-11 * kappa * max(1.0, np.abs(un).max()), 'multistep-step', lambda: f'{case["cls"]} step {i} dt={dt}: got {got}, expected {un}'):
            return
        # continue from the library's own values so that every step is judged on its own
        hist_t.append(tn)
        hist_u.append(got)
    r.close(np.abs(np.asarray(uend, dtype=float).ravel() - hist_u[-1]).max(), 0.0, 'multistep-returned-value')


@st.composite
def multistep_cases(draw):
    n = draw(st.integers(1, 3))
    return {
        'cls': draw(st.sampled_from(MULTISTEP)), 'n': n, 'A': S.shape_matrix(draw(S.mat(n)), draw(st.sampled_from(['stable', 'rot', 'any']))), 'g': draw(S.forcing(n)),
        'u0': draw(S.vec(n)), 'dt': draw(S.log_uniform(-3, -0.5)), 't0': draw(S.small_float(-2, 5)), 'nsteps': draw(st.integers(1, 6)),
    }  # fmt: skip


# ------------------------------------------------------------------------------------------------ DAE sweepers
DAE_PROBLEMS = {
    'SimpleDAE': ('pySDC.projects.DAE.problems.simpleDAE:SimpleDAE', {}, (0.0, 1.0)),
    'Pendulum2D': ('pySDC.projects.DAE.problems.pendulum2D:Pendulum2D', {}, (0.0, 1.0)),
    'DiscontinuousTestDAE': ('pySDC.projects.DAE.problems.discontinuousTestDAE:DiscontinuousTestDAE', {}, (1.0, 2.5)),
    'ProblematicF': ('pySDC.projects.DAE.problems.problematicF:ProblematicF', {}, (0.0, 1.0)),
}


def _dae_classes():
    from pySDC.projects.DAE.sweepers.fullyImplicitDAE import FullyImplicitDAE
    from pySDC.projects.DAE.sweepers.semiImplicitDAE import SemiImplicitDAE
    from pySDC.projects.DAE.sweepers import rungeKuttaDAE as rk

    return {'FullyImplicitDAE': FullyImplicitDAE, 'SemiImplicitDAE': SemiImplicitDAE, 'BackwardEulerDAE': rk.BackwardEulerDAE, 'TrapezoidalRuleDAE': rk.TrapezoidalRuleDAE, 'EDIRK4DAE': rk.EDIRK4DAE, 'DIRK43_2DAE': rk.DIRK43_2DAE}


def prop_dae(case, r):
    classes = _dae_classes()
    cls = classes[case['sweeper']]
    is_rk = case['sweeper'].endswith('DAE') and case['sweeper'] not in ('FullyImplicitDAE', 'SemiImplicitDAE')
    semi = case['sweeper'] == 'SemiImplicitDAE'
    pname, pp, _ = DAE_PROBLEMS[case['problem']]
    sp = {} if is_rk else {'num_nodes': case['num_nodes'], 'quad_type': 'RADAU-RIGHT', 'QI': case['QI']}
    desc = {'problem_class': F.resolve(pname), 'problem_params': dict(pp, newton_tol=1e-13), 'sweeper_class': cls, 'sweeper_params': sp, 'level_params': {'dt': case['dt']}, 'step_params': {'maxiter': 1}}
    step = Step(desc)
    L = step.levels[0]
    P, sweep = L.prob, L.sweep
    coll = sweep.coll
    M, dt, t0 = coll.num_nodes, L.dt, case['t0']
    r.label(case['sweeper'], case['problem'])
    L.status.time = t0
    L.status.unlocked = True
    L.status.sweep = 1
    ue = P.u_exact(t0)
    L.u[0] = P.dtype_u(ue)
    nodes = np.asarray(coll.nodes, float)
    Q = np.asarray(coll.Qmat, float)

    def resid(u, du, t):
        return np.abs(np.asarray(P.eval_f(u, du, t))).max()

    if is_rk:
        sweep.predict()
        L.status.sweep = 1
        sweep.update_nodes()
        sweep.compute_end_point()
        r.nontrivial([case['sweeper'], case['problem'], round(np.log10(dt))])
        # stage equations: U_i = u0 + dt sum_j a_ij K_j, F(U_i, K_i, t_i) = 0 with K = L.f
        QI = np.asarray(sweep.QI, float)
        worst = 0.0
        for m in range(1, M + 1):
            U = P.dtype_u(L.u[0])
            for j in range(1, m + 1):
                U = U + dt * QI[m, j] * L.f[j]
            worst = max(worst, resid(U, L.f[m], t0 + dt * nodes[m]))
            r.close(np.abs(np.asarray(L.u[m]) - np.asarray(U)).max(), 1e-12 * max(1.0, np.abs(np.asarray(U)).max()), 'dae-rk-stage-value', lambda: f'{case["sweeper"]} stage {m}')
        r.close(worst, 1e-8, 'dae-rk-stage-equation', lambda: f'{case["sweeper"]} {case["problem"]} dt={dt}')
        # tableau of the class is the one of its ODE namesake
        from pySDC.implementations.sweeper_classes import Runge_Kutta as RKmod

        ode = getattr(RKmod, case['sweeper'][:-3], None)
        if ode is not None:
            r.check(np.array_equal(np.asarray(cls.matrix), np.asarray(ode.matrix)) and np.array_equal(np.asarray(cls.weights), np.asarray(ode.weights)), 'dae-rk-tableau', f'{case["sweeper"]} tableau differs from {ode.__name__}')
        r.check(np.array_equal(np.asarray(L.uend), np.asarray(L.u[-1])), 'dae-rk-endpoint', 'end value is not the last stage')
        return

    QD = np.asarray(sweep.QI, float)
    # arbitrary node values near the exact solution: derivatives U' (stored in L.f) and, for the semi-implicit form, algebraic values
    pert = _np(case['pert'])
    for m in range(1, M + 1):
        tm = t0 + dt * nodes[m - 1]
        # Pendulum2D ships its state at t = 0 only: spread it (plus the perturbation below)
        L.u[m] = P.dtype_u(P.u_exact(tm if case['problem'] != 'Pendulum2D' else t0))
        try:
            du = P.dtype_f(P.du_exact(tm))
        except Exception:
            du = P.dtype_f(P.init, val=0.0)
        flat = np.asarray(du).ravel()
        flat += case['eps'] * pert[m - 1][: flat.size]
        L.f[m] = du
        L.u[m][:] = np.asarray(L.u[m]) + (case['eps'] * pert[m - 1][::-1][: flat.size]).reshape(np.asarray(L.u[m]).shape)
    L.f[0] = P.dtype_f(P.init, val=0.0)
    Fold = [None] + [P.dtype_f(L.f[m]) for m in range(1, M + 1)]
    u0 = P.dtype_u(L.u[0])
    r.nontrivial([case['sweeper'], case['problem'], case['QI'], M, round(np.log10(dt))])
    _warm_up(L, case.get('warm'))
    sweep.update_nodes()
    worst = 0.0
    for m in range(1, M + 1):
        tm = t0 + dt * nodes[m - 1]
        W = P.dtype_u(u0)
        for j in range(1, M + 1):
            W = W + dt * (Q[m, j] - QD[m, j]) * Fold[j]
        for j in range(1, m + 1):
            W = W + dt * QD[m, j] * L.f[j]
        if semi:
            W2 = P.dtype_u(u0)
            W2.diff[:] = np.asarray(W.diff)
            W2.alg[:] = np.asarray(L.u[m].alg)
            V = P.dtype_f(L.f[m])
            V.alg[:] = np.asarray(L.u[m].alg)
            worst = max(worst, resid(W2, V, tm))
        else:
            worst = max(worst, resid(W, L.f[m], tm))
        # node value = u0 + dt (Q U'_new)_m
        Un = P.dtype_u(u0)
        for j in range(1, M + 1):
            Un = Un + dt * Q[m, j] * L.f[j]
        if semi:
            r.close(np.abs(np.asarray(L.u[m].diff) - np.asarray(Un.diff)).max(), 1e-12 * max(1.0, np.abs(np.asarray(Un)).max()), 'dae-node-value', lambda: f'{case["sweeper"]} node {m}')
        else:
            r.close(np.abs(np.asarray(L.u[m]) - np.asarray(Un)).max(), 1e-12 * max(1.0, np.abs(np.asarray(Un)).max()), 'dae-node-value', lambda: f'{case["sweeper"]} node {m}')
    if worst > 1e-8:
        # the nonlinear solver of the problem class (scipy hybr) may stop without success: not the sweeper's equation -> re-solve from the
        # sweeper's result; only if a better solution of the SAME node system exists nearby the sweeper built a different system
        r.label('node-system-residual-large')
    r.close(worst, 1e-7, 'dae-node-equation', lambda: f'{case["sweeper"]} {case["problem"]} {case["QI"]} M={M} dt={dt}: residual of the node systems {worst:.3e}')
    sweep.compute_end_point()
    r.check(np.array_equal(np.asarray(L.uend), np.asarray(L.u[-1])), 'dae-endpoint', 'end value is not the last node')


@st.composite
def dae_cases(draw):
    sw = draw(st.sampled_from(['FullyImplicitDAE', 'FullyImplicitDAE', 'SemiImplicitDAE', 'SemiImplicitDAE', 'BackwardEulerDAE', 'TrapezoidalRuleDAE', 'EDIRK4DAE', 'DIRK43_2DAE']))
    # SemiImplicitDAE needs the diff/alg data type; the RK sweepers need du_exact for their start values
    prob = draw(st.sampled_from({'FullyImplicitDAE': sorted(DAE_PROBLEMS), 'SemiImplicitDAE': ['SimpleDAE', 'Pendulum2D', 'DiscontinuousTestDAE']}.get(sw, ['SimpleDAE', 'DiscontinuousTestDAE', 'ProblematicF'])))
    lo, hi = DAE_PROBLEMS[prob][2]
    M = draw(st.integers(1, 4))
    return {
        'sweeper': sw, 'problem': prob, 'num_nodes': M, 'QI': draw(st.sampled_from(['IE', 'LU', 'MIN-SR-S', 'IEpar'])), 'dt': draw(S.log_uniform(-3, -1)),
        't0': lo + (hi - lo) * draw(st.integers(0, 8)) / 10.0 if prob != 'Pendulum2D' else 0.0, 'eps': draw(st.sampled_from([0.0, 1e-3, 1e-2])), 'pert': [[draw(S.small_float()) for _ in range(16)] for _ in range(M)],
        'warm': draw(st.sampled_from([None, 0.5, 2.0])),
    }  # fmt: skip
