"""C06 - accepted steps tile [t0, Tend] contiguously and chain their values exactly.

Oracle: invariants over block snapshots taken by an observer convergence controller (order -1000) after every block,
plus exact-rational step counting for fixed step sizes. Restarts / step-size changes are injected from generated
scripts through a harness-side convergence controller (order 50), driving the real BasicRestarting and
SpreadStepSizesBlockwise logic.
"""

from fractions import Fraction
import math

import numpy as np
from hypothesis import strategies as st

from vlib.runner import Clause
from vlib import strats as S
from vlib import runs as R
from vlib import fixtures as F

from pySDC.core.errors import ControllerError, ConvergenceError

PROPERTY = 'C06'
LEVEL = 'exploration'
RULE = (
    'Hypothesis draws t0 in +-{0,10^[-2,3]}, dt in 10^[-3,0], Tend as t0+k*dt (float product), t0+(k+theta)*dt or t0+sum of k additions, '
    'num_procs 1..8 (also longer than the remaining interval), 1-2 levels, maxiter 1-2, coupling mode, and optionally a script of restart requests '
    'and dt_new values at (block, slot). Non-trivial = >= 3 blocks and (num_procs >= 2 or a restart or Tend not a multiple of dt); distinct = full case.'
)
ASSUMPTIONS = [
    'accepted steps are reconstructed from block snapshots: steps before the first effective restart flag of a block',
    'step-count clause judged only where (Tend-t0)/dt is within 1e-9 relative of an integer (must be that integer) or farther than 1e-6 from any integer (must be the ceiling); the thin band in between is counted as ambiguous',
]

EPS = np.finfo(float).eps


def build_and_run(case):
    cc = {R.Observer: {}}
    if case.get('script'):
        cc[R.Inject] = {'script': case['script']}
    if case.get('max_restarts') is not None:
        from pySDC.implementations.convergence_controller_classes.basic_restarting import BasicRestartingNonMPI

        cc[BasicRestartingNonMPI] = {'max_restarts': case['max_restarts'], 'crash_after_max_restarts': False}
    desc = R.scalar_description(lam=case['lam'], dt=case['dt'], maxiter=case['maxiter'], levels=case['levels'], extra_cc=cc, num_nodes=case['num_nodes'], quad_type=case.get('quad_type', 'RADAU-RIGHT'), coll_update=case.get('coll_update', False))
    ctrl = R.make_controller(case['num_procs'], desc, mssdc_jac=case['jac'], predict_type=case.get('predict'))
    P = ctrl.MS[0].levels[0].prob
    u0 = P.dtype_u(P.init)
    u0[:] = case['u0']
    u0_bytes = R.bits(u0)
    R.Observer.reset()
    uend, stats = ctrl.run(u0=u0, t0=case['t0'], Tend=case['Tend'])
    return ctrl, u0, u0_bytes, uend, stats, list(R.Observer.blocks)


def step_count_expectation(t0, dt, Tend):
    r = (Fraction(Tend) - Fraction(t0)) / Fraction(dt)
    k = round(r)
    if abs(r - k) <= Fraction(1, 10**9) * max(1, k):
        return 'integer', int(k), float(r)
    frac = abs(r - k)
    if frac > Fraction(1, 10**6):
        return 'ceil', int(math.ceil(r)), float(r)
    return 'ambiguous', None, float(r)


def tol_time(a, c, scale=0.0):
    # "up to rounding": the controller forms times both as t0 + (dt + ... + dt) and as chained additions, so the
    # rounding unit is that of the largest time involved in the run (t0, Tend), not of the (possibly cancelling) result
    return 4 * R.ulp(max(abs(a['time']), abs(c['time']), abs(a['dt']), scale))


def prop(case, r):
    t0, dt, Tend = case['t0'], case['dt'], case['Tend']
    scripted = bool(case.get('script'))
    r.label(f'procs{min(case["num_procs"], 4)}{"+" if case["num_procs"] > 4 else ""}', f'levels{case["levels"]}', 'scripted' if scripted else 'fixed-dt', case['tend_mode'], case.get('quad_type', 'RADAU-RIGHT'), 'coll-update' if case.get('coll_update') else 'last-node')
    try:
        ctrl, u0, u0_bytes, uend, stats, blocks = build_and_run(case)
    except ControllerError as e:
        if 'Nothing to do' in str(e):
            r.check(not (t0 < Tend - 10 * EPS), 'nothing-to-do', f'controller refused t0={t0} Tend={Tend}')
            r.discard('empty interval rejected')
            return
        raise
    # caller's initial value untouched
    r.check(R.bits(u0) == u0_bytes, 'caller-u0-modified', 'run modified the caller\'s u0 object')
    accepted = []
    restarts = 0
    restarted_blocks = set()
    for b, blk in enumerate(blocks):
        flags = [s['restart'] for s in blk]
        first_restart = flags.index(True) if True in flags else len(blk)
        if first_restart < len(blk):
            restarted_blocks.add(b)
        # restart flags propagate to all later steps of the block
        r.check(all(flags[first_restart:]), 'restart-not-propagated', f'block {b}: flags {flags}')
        for s in blk[:first_restart]:
            accepted.append((b, s))
        if first_restart < len(blk):
            restarts += 1
            if b + 1 < len(blocks):
                nxt = blocks[b + 1][0]
                rs = blk[first_restart]
                r.check(nxt['time'] == rs['time'], 'restart-time', f'block {b + 1} starts at {nxt["time"]!r}, restarted step started at {rs["time"]!r}')
                r.check(nxt['u0'] == rs['u0'], 'restart-value', f'block {b + 1} does not start from the restarted step\'s start value')
            else:
                r.fail('run-ended-on-restart', f'last block {b} requested a restart but the run ended')
        # times inside a block are contiguous
        for a, c in zip(blk[:-1], blk[1:]):
            r.check(abs(c['time'] - (a['time'] + a['dt'])) <= tol_time(a, c, max(abs(t0), abs(Tend))), 'block-times', f'block {b}: {a["time"]!r}+{a["dt"]!r} vs {c["time"]!r}')
    if not r.check(len(accepted) > 0, 'no-accepted-step', ''):
        return
    nblocks = len(blocks)
    nontrivial = nblocks >= 3 and (case['num_procs'] >= 2 or restarts > 0 or case['tend_mode'] != 'multiple')
    if nontrivial:
        r.nontrivial(case)
    if restarts:
        r.label('with-restart')
    # first accepted step
    b0, s0 = accepted[0]
    r.check(s0['time'] == t0, 'first-start', f'{s0["time"]!r} != t0={t0!r}')
    first_blk = blocks[0][0]
    r.check(first_blk['u0'] == u0_bytes, 'first-value', 'first step does not start from the caller\'s value')
    r.check(first_blk['u0_id'] != id(u0), 'first-value-alias', 'first step uses the caller\'s object, not a copy')
    # chain
    for (ba, a), (bb, c) in zip(accepted[:-1], accepted[1:]):
        r.check(abs(c['time'] - (a['time'] + a['dt'])) <= tol_time(a, c, max(abs(t0), abs(Tend))), 'tiling', f'step at {a["time"]!r} dt {a["dt"]!r} followed by start {c["time"]!r}')
        # inside one block, behind a predecessor that is not the first step of the block, known finding F16 applies (the predecessor's own
        # start value may still change in its last check); behind the first step of a block and across blocks nothing can excuse a mismatch
        # (a block that continues after a restart starts from the restarted step's start value, which that step had received from `a` inside the block)
        inner = a.get('slot', 0) >= 1 and (ba == bb or ba in restarted_blocks)  # blocks in between were restarted from their first step
        r.check(c['u0'] == a['uend'], 'chain-value-inner' if inner else 'chain-value', f'step starting at {c["time"]!r} (block {bb}) does not start from the end value of the step before it')
    for b, s in accepted:
        r.check(s['time'] < Tend, 'start-beyond-Tend', f'accepted step starts at {s["time"]!r} >= Tend={Tend!r}')
        r.check(s['dt'] > 0, 'nonpositive-dt', f'{s["dt"]}')
    last = accepted[-1][1]
    end = last['time'] + last['dt']
    r.check(end >= Tend - 1e-9 * (1 + abs(Tend)), 'stopped-early', f'last accepted step ends at {end!r}, Tend={Tend!r}')
    r.check(R.bits(uend) == last['uend'], 'returned-value', 'returned value is not the end value of the last accepted step')
    # fixed step size: number of accepted steps
    if not scripted:
        r.check(all(s['dt'] == dt for _, s in accepted), 'fixed-dt-changed', f'{sorted({s["dt"] for _, s in accepted})}')
        kind, N, rr = step_count_expectation(t0, dt, Tend)
        if kind == 'ambiguous':
            r.label('count-ambiguous')
        else:
            r.label('count-' + kind)
            r.check(len(accepted) == N, 'step-count', f'{len(accepted)} accepted steps, expected {N} (({Tend!r}-{t0!r})/{dt!r} = {rr!r}, num_procs={case["num_procs"]}) last_start={accepted[-1][1]["time"]!r}')


# ----------------------------------------------------------------------------------------------- ParaDiag controller
def prop_paradiag(case, r):
    """controller_ParaDiag_nonMPI documents (with a warning) that it solves to the end of its block, so Tend is a whole number of blocks here"""
    from pySDC.implementations.controller_classes.controller_ParaDiag_nonMPI import controller_ParaDiag_nonMPI
    from pySDC.implementations.problem_classes.TestEquation_0D import testequation0d
    from pySDC.implementations.sweeper_classes.ParaDiagSweepers import QDiagonalization

    Ln, nb, dt, t0 = case['n_steps'], case['nblocks'], case['dt'], case['t0']
    lam = np.array([complex(a, b) for a, b in case['lambdas']])
    restol = 1e-11
    desc = {
        'problem_class': testequation0d, 'problem_params': {'lambdas': lam, 'u0': 1.0}, 'sweeper_class': QDiagonalization,
        'sweeper_params': {'num_nodes': case['num_nodes'], 'quad_type': 'RADAU-RIGHT'}, 'level_params': {'dt': dt, 'restol': restol}, 'step_params': {'maxiter': 60},
    }  # fmt: skip
    script = case.get('script')
    if script:
        # step-size changes between blocks (no restarts): proposals of the last step of a block, applied by the library's spreader
        desc['convergence_controllers'] = {R.Inject: {'script': script}}
    log = []

    def capture(name, step, lvl):
        if name in ('pre_step', 'post_step'):
            L = step.levels[0]
            return {'u0': None if L.u[0] is None else np.array(L.u[0], copy=True), 'uend': None if L.uend is None else np.array(L.uend, copy=True)}

    F.Recorder.reset(capture=capture)
    ctrl = controller_ParaDiag_nonMPI(num_procs=Ln, controller_params=F.quiet_controller_params(alpha=case['alpha'], hook_class=[F.Recorder]), description=desc)
    P = ctrl.MS[0].levels[0].prob
    u0 = P.dtype_u(P.init)
    u0[:] = np.array([complex(a, b) for a, b in case['u0']])
    u0_before = np.array(u0, copy=True)
    N = Ln * nb
    Tend = t0 + N * dt
    uend, stats = ctrl.run(u0=u0, t0=t0, Tend=Tend)
    log = [e for e in F.Recorder.log if e['ev'] == 'post_step']
    r.label(f'steps{Ln}', f'blocks{nb}')
    if Ln >= 2 and nb >= 2:
        r.nontrivial([Ln, nb, dt, t0, case['num_nodes'], case['alpha']])
    r.check(np.array_equal(np.asarray(u0), u0_before), 'caller-u0-modified', 'the initial value passed to run() was changed')
    if any(e['iter'] >= 60 for e in log):
        r.discard('ParaDiag iteration did not converge')
        return
    log.sort(key=lambda e: e['time'])
    scale = max(abs(t0), abs(Tend), 1.0)
    if script:
        r.label('paradiag-dt-changes')
        # the controller solves whole blocks (documented): judged are contiguity, one step size per block, reaching Tend
        r.check(len(log) % Ln == 0, 'paradiag-step-count', f'{len(log)} steps are not whole blocks of {Ln}')
        for i, e in enumerate(log):
            if i > 0:
                p_ = log[i - 1]
                r.close(abs(e['time'] - (p_['time'] + p_['dt'])), 8 * (i + 2) * np.finfo(float).eps * scale, 'paradiag-tiling', f'step {i} starts at {e["time"]!r}, previous step {p_["time"]!r} + {p_["dt"]!r}')
            if i % Ln:
                r.check(e['dt'] == log[i - 1]['dt'], 'paradiag-block-dt', f'steps {i - 1} and {i} of one block have step sizes {log[i - 1]["dt"]!r}, {e["dt"]!r}')
        r.check(abs(log[0]['time'] - t0) == 0, 'paradiag-tiling', f'first step starts at {log[0]["time"]!r}, t0={t0!r}')
        r.check(log[-1]['time'] + log[-1]['dt'] >= Tend - 1e-9 * scale, 'paradiag-stopped-early', f'last step ends at {log[-1]["time"] + log[-1]["dt"]!r}, Tend={Tend!r}')
        if len({e['dt'] for e in log}) > 1:
            r.label('paradiag-dt-changed-effectively')
        N = len(log)
    else:
        if not r.check(len(log) == N, 'paradiag-step-count', f'{len(log)} accepted steps, expected {N} (t0={t0}, dt={dt}, {Ln} steps x {nb} blocks)'):
            return
        for i, e in enumerate(log):
            r.close(abs(e['time'] - (t0 + i * dt)), 4 * (i + 2) * np.finfo(float).eps * scale, 'paradiag-tiling', f'step {i} starts at {e["time"]!r}, expected {t0 + i * dt!r}')
            r.check(e['dt'] == dt, 'paradiag-dt', f'step {i} has dt {e["dt"]!r}')
            r.check(e['time'] < Tend, 'paradiag-start-beyond-Tend', f'step {i} starts at {e["time"]!r} >= Tend {Tend!r}')
    r.check(np.array_equal(np.asarray(log[0]['u0']), u0_before), 'paradiag-first-start-value', 'first step does not start from the initial value')
    vs = max(1.0, max(np.abs(e['uend']).max() for e in log))
    for i in range(1, N):
        prev, cur = log[i - 1], log[i]
        if i % Ln == 0:
            # across blocks the value is handed over as it is
            r.check(np.array_equal(cur['u0'], prev['uend']), 'paradiag-block-chain', f'block starting at step {i} does not start from the previous end value (differs by {np.abs(cur["u0"] - prev["uend"]).max():.3e})')
        else:
            # inside a block all steps are solved simultaneously: start and previous end agree up to the stopping tolerance
            r.close(np.abs(cur['u0'] - prev['uend']).max(), 1e3 * restol * vs, 'paradiag-inner-chain', f'step {i}')
    r.check(np.array_equal(np.asarray(uend), log[-1]['uend']), 'paradiag-returned-value', 'returned value is not the end value of the last step')


@st.composite
def paradiag_cases(draw):
    n = draw(st.integers(1, 2))
    case = {
        'n_steps': draw(st.integers(1, 4)), 'nblocks': draw(st.integers(1, 4)), 'dt': draw(st.sampled_from([0.1, 0.25, 0.05, 0.3])), 't0': draw(st.sampled_from([0.0, 0.5, -1.0, 2.0])),
        'num_nodes': draw(st.integers(1, 3)), 'alpha': draw(st.sampled_from([1e-2, 1e-4, 1e-6])), 'lambdas': [[-abs(draw(S.small_float(-2, 2))) - 0.05, draw(S.small_float(-2, 2))] for _ in range(n)],
        'u0': [[draw(S.small_float(0.2, 1.5)), draw(S.small_float(-1, 1))] for _ in range(n)],
    }  # fmt: skip
    if draw(st.integers(0, 2)) == 0 and case['nblocks'] >= 2:
        case['script'] = [{'block': b, 'slot': case['n_steps'] - 1, 'restart': False, 'dt_new': float(case['dt'] * draw(st.sampled_from([0.5, 2.0, 0.75, 1.5])))} for b in sorted(draw(st.sets(st.integers(0, 2), min_size=1, max_size=2)))]
    return case



def known_match(fid, clause, case, failure):
    tag, msg = failure
    if fid == 'F16' and tag == 'chain-value-inner':
        quadrature_end = case.get('coll_update') or case.get('quad_type', 'RADAU-RIGHT') in ('GAUSS', 'RADAU-LEFT')
        return bool(quadrature_end and case['num_procs'] >= 2)
    if fid == 'F4' and tag == 'step-count' and not case.get('script'):
        kind, N, rr = step_count_expectation(case['t0'], case['dt'], case['Tend'])
        if kind != 'integer':
            return False
        # narrow: exactly one extra step, caused by accumulated rounding of repeated t += dt against the absolute 10*eps threshold
        got = int(msg.split(' accepted')[0])
        if got != N + 1:
            return False
        last_start = float(msg.split('last_start=')[1])
        gap = case['Tend'] - last_start
        # the extra step starts within the accumulated rounding of N additions below Tend, but more than 10*eps below it
        return 10 * EPS < gap <= (N + 2) * R.ulp(max(abs(case['Tend']), abs(case['t0'])))
    return False


@st.composite
def cases(draw, kmax=120):
    sign = draw(st.sampled_from([1.0, 1.0, -1.0]))
    t0 = 0.0 if draw(st.integers(0, 2)) == 0 else sign * draw(S.log_uniform(-2, 3))
    dt = draw(st.one_of(S.log_uniform(-3, 0), st.sampled_from([0.1, 0.01, 0.2, 0.25, 0.3, 1.0 / 3.0, 0.7, 1e-3])))
    k = draw(st.integers(1, kmax))
    mode = draw(st.sampled_from(['multiple', 'multiple', 'fraction', 'accumulated', 'raw']))
    if mode == 'multiple':
        Tend = t0 + k * dt
    elif mode == 'fraction':
        theta = draw(st.floats(0.05, 0.95))
        Tend = t0 + (k + theta) * dt
    elif mode == 'accumulated':
        Tend = t0
        for _ in range(k):
            Tend = Tend + dt
    else:
        Tend = t0 + draw(st.floats(0.5, kmax)) * dt
    if not Tend > t0 + 20 * EPS * max(1.0, abs(t0)):
        Tend = t0 + dt
    num_procs = draw(st.integers(1, 8))
    levels = draw(st.sampled_from([1, 1, 2]))
    case = {
        't0': float(t0), 'dt': float(dt), 'Tend': float(Tend), 'tend_mode': mode, 'num_procs': num_procs, 'levels': levels,
        'maxiter': draw(st.integers(1, 2)), 'jac': draw(st.booleans()), 'num_nodes': draw(st.integers(1, 3)), 'lam': draw(S.small_float(-2, 0.0)),  # not positive: I - dt*q*lam of the dense fixture solve must not become singular for any drawn dt
        'u0': draw(S.small_float(-2, 2)), 'predict': draw(st.sampled_from([None, 'fine_only', 'pfasst_burnin'])) if levels > 1 else None,
        'script': None, 'max_restarts': None,
    }  # fmt: skip
    qt = draw(st.sampled_from(['RADAU-RIGHT', 'RADAU-RIGHT', 'LOBATTO', 'GAUSS', 'RADAU-LEFT']))
    if levels > 1 and num_procs > 1 and qt in ('GAUSS', 'RADAU-LEFT'):
        qt = 'RADAU-RIGHT'  # PFASST needs the right end point as node (rejected otherwise, see C20)
    case['quad_type'] = qt
    case['coll_update'] = draw(st.booleans())
    if qt in ('LOBATTO', 'RADAU-LEFT'):
        case['num_nodes'] = max(2, case['num_nodes'])
    if draw(st.integers(0, 2)) == 0:
        n = draw(st.integers(1, 6))
        script = []
        for _ in range(n):
            e = {'block': draw(st.integers(0, 12)), 'slot': draw(st.integers(0, num_procs - 1)), 'restart': draw(st.booleans()), 'dt_new': None}
            if draw(st.booleans()):
                e['dt_new'] = float(dt * draw(st.sampled_from([0.5, 0.25, 2.0, 0.75, 1.5, 1.0])))
            script.append(e)
        case['script'] = script
        case['max_restarts'] = draw(st.integers(1, 4))
    return case


def clauses(tier):
    return [
        Clause('tiling', prop, strategy=cases(120 if tier == 'quick' else 1500), examples={'quick': 700, 'thorough': 12000}),
        Clause('paradiag-tiling', prop_paradiag, strategy=paradiag_cases(), examples={'quick': 200, 'thorough': 4000}),
    ]
