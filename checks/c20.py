"""C20 - descriptions are interpreted consistently and invalid setups are rejected.

Grammar-generated valid descriptions (every problem / level / sweeper parameter independently scalar or list of
length 1-4, 1-4 levels): the hierarchy must have as many levels as the longest list, level j gets entry min(j, len-1)
of each list and the shared scalars. Single-fault perturbations of valid descriptions (the fault classes the statement
names) must raise at construction or during a one-step run; silent acceptance is the violation. Convergence
controllers: one instance per class, ascending control order, user parameters override defaults.
"""

import copy

import numpy as np
from hypothesis import strategies as st

from vlib.runner import Clause
from vlib import strats as S
from vlib import fixtures as F

from pySDC.core.step import Step
from pySDC.core.convergence_controller import ConvergenceController
from pySDC.implementations.controller_classes.controller_nonMPI import controller_nonMPI
from pySDC.implementations.convergence_controller_classes.adaptivity import Adaptivity
from pySDC.implementations.convergence_controller_classes.step_size_limiter import StepSizeLimiter, StepSizeSlopeLimiter
from pySDC.implementations.convergence_controller_classes.basic_restarting import BasicRestartingNonMPI
from pySDC.implementations.convergence_controller_classes.check_convergence import CheckConvergence
from pySDC.implementations.problem_classes.TestEquation_0D import testequation0d
from pySDC.implementations.problem_classes.HeatEquation_ND_FD import heatNd_unforced
from pySDC.implementations.sweeper_classes.generic_implicit import generic_implicit
from pySDC.implementations.sweeper_classes.imex_1st_order import imex_1st_order
from pySDC.implementations.transfer_classes.TransferMesh_NoCoarse import mesh_to_mesh as nocoarse
from pySDC.implementations.transfer_classes.TransferMesh import mesh_to_mesh

PROPERTY = 'C20'
LEVEL = 'exploration'
RULE = (
    'valid clause: Hypothesis draws 1-4 levels and for every problem/level/sweeper parameter a scalar or a list of length 1-4; faults clause: a valid description plus exactly one '
    'fault from the classes named in the statement (dropped essential key, multi-level without space transfer, unknown predictor / residual type / initial guess / quadrature / '
    'node family / preconditioner, several sweeps on the coarsest level, PFASST without right end node, deprecated keys, undeclared attribute on a frozen object, read-only problem parameter); '
    'controllers clause: user/dependency combinations of convergence controllers. Non-trivial = >= 2 levels with lists of different lengths (valid) / every fault case; distinct = case.'
)
ASSUMPTIONS = [
    '"first use" = one run over one step with maxiter 2',
    'a single-level run ignores predict_type with a warning (documented): an unknown predictor is only a fault with >= 2 levels',
]


def pick(v, j):
    return v[min(j, len(v) - 1)] if isinstance(v, list) else v


def build(case):
    pk = case['problem']
    if pk == 'dahlquist':
        pc = testequation0d
        pp = {'lambdas': np.array([-1.0, -2.0]), 'u0': copy.deepcopy(case['pp']['u0'])}
        st_cls, st_par = nocoarse, {}
    else:
        pc = heatNd_unforced
        pp = {'nvars': copy.deepcopy(case['pp']['nvars']), 'nu': copy.deepcopy(case['pp']['nu']), 'freq': 2, 'bc': 'dirichlet-zero'}
        st_cls, st_par = mesh_to_mesh, {'rorder': 2, 'iorder': 2}
    desc = {
        'problem_class': pc, 'problem_params': pp, 'sweeper_class': generic_implicit,
        'sweeper_params': copy.deepcopy(case['sp']), 'level_params': copy.deepcopy(case['lp']), 'step_params': {'maxiter': 2},
    }  # fmt: skip
    if case['nlevels'] > 1 or case.get('always_transfer'):
        desc['space_transfer_class'] = st_cls
        desc['space_transfer_params'] = st_par
    return desc


def n_levels_expected(case):
    n = 1
    for d in (case['pp'], case['sp'], case['lp']):
        for v in d.values():
            if isinstance(v, list):
                n = max(n, len(v))
    return n


def prop_valid(case, r):
    desc = build(case)
    nexp = n_levels_expected(case)
    r.label(f'levels{nexp}', case['problem'])
    lens = {len(v) for d in (case['pp'], case['sp'], case['lp']) for v in d.values() if isinstance(v, list)}
    if nexp >= 2 and len(lens) >= 2:
        r.nontrivial(case)
    step = Step(desc)
    if not r.check(len(step.levels) == nexp, 'number-of-levels', f'{len(step.levels)} levels, longest list has {nexp} entries'):
        return
    for j, L in enumerate(step.levels):
        r.check(L.level_index == j, 'level-index', f'{L.level_index} != {j}')
        for k, v in case['lp'].items():
            got = getattr(L.params, k)
            r.check(got == pick(v, j), f'level-param', f'level {j}: {k} = {got!r}, expected {pick(v, j)!r} from {v!r}')
        for k, v in case['sp'].items():
            got = getattr(L.sweep.params, k)
            r.check(got == pick(v, j), f'sweeper-param', f'level {j}: {k} = {got!r}, expected {pick(v, j)!r} from {v!r}')
        r.check(L.sweep.coll.num_nodes == pick(case['sp']['num_nodes'], j), 'collocation-nodes', f'level {j}')
        r.check(L.sweep.coll.quad_type == pick(case['sp']['quad_type'], j), 'collocation-type', f'level {j}')
        for k, v in case['pp'].items():
            got = L.prob.params[k]
            exp = pick(v, j)
            if k == 'nvars':
                exp = (exp,)
            r.check(np.all(got == exp), 'problem-param', f'level {j}: {k} = {got!r}, expected {exp!r} from {v!r}')
        r.check(L.params.dt_initial == pick(case['lp']['dt'], j), 'dt-initial', f'level {j}')
    # the user's lists are not modified by building the hierarchy, so a description whose dictionaries are reused
    # (with some lists shortened) is again interpreted from what the user wrote
    for name, d in (('problem_params', case['pp']), ('sweeper_params', case['sp']), ('level_params', case['lp'])):
        for k, v in d.items():
            if isinstance(v, list):
                got = desc[name][k]
                r.check(isinstance(got, list) and len(got) == len(v) and all(np.all(a == b) for a, b in zip(got, v)), 'user-list-modified', f'{name}[{k!r}] was {v!r}, is {got!r} after Step(description)')
    if nexp >= 2 and case['problem'] == 'dahlquist':
        # reuse the same dictionaries: truncate every list that has nexp entries to nexp-1 (new value), keep the other objects
        changed = False
        for name in ('problem_params', 'sweeper_params', 'level_params'):
            for k in list(desc[name].keys()):
                v = desc[name][k]
                if isinstance(v, list) and len(v) >= nexp and k in case[{'problem_params': 'pp', 'sweeper_params': 'sp', 'level_params': 'lp'}[name]]:
                    desc[name][k] = list(v[: nexp - 1])
                    changed = True
        if changed:
            written = [len(v) for name in ('pp', 'sp', 'lp') for v in case[name].values() if isinstance(v, list)]
            exp2 = max([min(n, nexp - 1) for n in written] + [1])
            if exp2 == 1:
                desc.pop('space_transfer_class', None)
                desc.pop('space_transfer_params', None)
            desc.pop('base_transfer_class', None)
            step2 = Step(desc)
            r.check(len(step2.levels) == exp2, 'reused-description-levels', f'reused dictionaries with lists of at most {exp2} entries gave {len(step2.levels)} levels')
    # levels are distinct objects with their own problem and sweeper
    ids = {id(L.prob) for L in step.levels} | {id(L.sweep) for L in step.levels}
    r.check(len(ids) == 2 * len(step.levels), 'shared-level-objects', '')
    # the controller builds the same hierarchy on every step
    ctrl = controller_nonMPI(num_procs=case['num_procs'] if nexp == 1 or all(pick(case['sp']['quad_type'], j) in ('RADAU-RIGHT', 'LOBATTO') for j in range(nexp)) else 1, controller_params=F.quiet_controller_params(), description=build(case))
    for Sx in ctrl.MS:
        r.check(len(Sx.levels) == nexp, 'controller-levels', '')
        for j, L in enumerate(Sx.levels):
            r.check(L.params.dt == pick(case['lp']['dt'], j) and L.sweep.coll.num_nodes == pick(case['sp']['num_nodes'], j), 'controller-level-params', f'level {j}')


def listify(draw, values, nlev, force_list=False):
    """scalar or list of length 1..nlev"""
    if not force_list and draw(st.booleans()):
        return draw(st.sampled_from(values))
    n = draw(st.integers(1, nlev))
    return [draw(st.sampled_from(values)) for _ in range(n)]


@st.composite
def valid_cases(draw, for_fault=False):
    nlev = draw(st.integers(1, 4))
    problem = draw(st.sampled_from(['dahlquist', 'dahlquist', 'heat']))
    case = {'problem': problem, 'num_procs': draw(st.integers(1, 3))}
    if problem == 'dahlquist':
        case['pp'] = {'u0': listify(draw, [1.0, 2.0, -0.5, 3.0], nlev)}
    else:
        nlev = min(nlev, 3)
        sizes = [31, 15, 7][: draw(st.integers(1, nlev))]
        case['pp'] = {'nvars': sizes if len(sizes) > 1 or draw(st.booleans()) else sizes[0], 'nu': listify(draw, [0.1, 0.2], nlev)}
    nn = listify(draw, [2, 3, 4], nlev)
    case['sp'] = {
        'num_nodes': nn, 'quad_type': listify(draw, ['RADAU-RIGHT', 'LOBATTO', 'RADAU-RIGHT'], nlev), 'QI': listify(draw, ['IE', 'LU', 'MIN-SR-S'], nlev),
        'initial_guess': listify(draw, ['spread', 'copy', 'zero'], nlev),
    }  # fmt: skip
    case['lp'] = {'dt': listify(draw, [0.1, 0.05, 0.2], nlev), 'restol': listify(draw, [-1.0, 1e-8, 1e-10], nlev), 'residual_type': listify(draw, ['full_abs', 'last_abs'], nlev)}
    # make sure some list really has nlev entries
    if nlev > 1 and n_levels_expected(case) < 2 and problem == 'dahlquist':
        case['lp']['dt'] = [0.1] * nlev
    case['nlevels'] = n_levels_expected(case)
    # nsweeps: list with 1 on the coarsest level
    if case['nlevels'] > 1 and draw(st.booleans()):
        case['lp']['nsweeps'] = [draw(st.integers(1, 2)) for _ in range(case['nlevels'] - 1)] + [1]
    return case


# ----------------------------------------------------------------------------------------------- single faults
FAULTS = [
    'drop:problem_class', 'drop:sweeper_class', 'drop:sweeper_params', 'drop:level_params', 'drop:num_nodes', 'no-space-transfer', 'predict-unknown', 'residual-unknown',
    'initial-guess-unknown', 'quad-unknown', 'node-type-unknown', 'QI-unknown', 'coarse-nsweeps', 'pfasst-gauss', 'pfasst-radau-left', 'deprecated-predict', 'deprecated-dtype_u',
    'deprecated-dtype_f', 'frozen:step.status', 'frozen:step.params', 'frozen:level.status', 'frozen:level.params', 'frozen:sweeper.params', 'frozen:controller.params', 'readonly-problem-param',
    'frozen:cc.params',
]  # fmt: skip


def prop_fault(case, r):
    fault = case['fault']
    r.label(fault)
    r.nontrivial(case)
    base = case['base']
    if fault in ('no-space-transfer', 'predict-unknown', 'coarse-nsweeps', 'pfasst-gauss', 'pfasst-radau-left') and base['nlevels'] < 2:
        base = dict(base, lp=dict(base['lp'], dt=[0.1, 0.1]), nlevels=max(2, base['nlevels']))
        base['nlevels'] = n_levels_expected(base)
        if base['problem'] == 'heat':
            base['pp'] = dict(base['pp'], nvars=[31, 15])
    desc = build(base)
    cparams = F.quiet_controller_params()
    nprocs = 1
    post = None
    if fault.startswith('drop:'):
        key = fault.split(':')[1]
        if key == 'num_nodes':
            desc['sweeper_params'].pop('num_nodes')
        else:
            desc.pop(key)
    elif fault == 'no-space-transfer':
        desc.pop('space_transfer_class', None)
        desc.pop('space_transfer_params', None)
    elif fault == 'predict-unknown':
        cparams['predict_type'] = 'fine_onyl'
    elif fault == 'residual-unknown':
        desc['level_params']['residual_type'] = 'full_abss'
    elif fault == 'initial-guess-unknown':
        desc['sweeper_params']['initial_guess'] = 'spreed'
    elif fault == 'quad-unknown':
        desc['sweeper_params']['quad_type'] = 'RADAU'
    elif fault == 'node-type-unknown':
        desc['sweeper_params']['node_type'] = 'LEGENDER'
    elif fault == 'QI-unknown':
        desc['sweeper_params']['QI'] = 'LUX'
    elif fault == 'coarse-nsweeps':
        desc['level_params']['nsweeps'] = [1] * (base['nlevels'] - 1) + [2]
    elif fault == 'pfasst-gauss':
        desc['sweeper_params']['quad_type'] = ['GAUSS'] * base['nlevels']
        nprocs = 2
    elif fault == 'pfasst-radau-left':
        desc['sweeper_params']['quad_type'] = ['RADAU-LEFT'] * base['nlevels']
        nprocs = 2
    elif fault == 'deprecated-predict':
        cparams['predict'] = True
    elif fault == 'deprecated-dtype_u':
        from pySDC.implementations.datatype_classes.mesh import mesh

        desc['dtype_u'] = mesh
    elif fault == 'deprecated-dtype_f':
        from pySDC.implementations.datatype_classes.mesh import mesh

        desc['dtype_f'] = mesh
    else:
        post = fault
    raised = None
    try:
        ctrl = controller_nonMPI(num_procs=nprocs, controller_params=cparams, description=desc)
        if post is not None:
            Sx = ctrl.MS[0]
            target = {
                'frozen:step.status': Sx.status, 'frozen:step.params': Sx.params, 'frozen:level.status': Sx.levels[0].status, 'frozen:level.params': Sx.levels[0].params,
                'frozen:sweeper.params': Sx.levels[0].sweep.params, 'frozen:controller.params': ctrl.params, 'frozen:cc.params': ctrl.convergence_controllers[0].params,
            }.get(post)  # fmt: skip
            if post == 'readonly-problem-param':
                prob = Sx.levels[0].prob
                # the names come from the class sources (registered with readOnly=True in the class and in its bases), not from the
                # object's own registry, which is what is under test (seed C20-3 emptied part of the registry)
                names = ['nvars', 'lambdas', 'u0'] if base['problem'] == 'dahlquist' else ['nvars', 'stencil_type', 'order', 'bc', 'nu']
                accepted = []
                for name in names:
                    try:
                        setattr(prob, name, getattr(prob, name))
                        accepted.append(name)
                    except Exception:
                        pass
                r.check(set(names) <= set(prob.params), 'readonly-param-not-in-params', lambda: f'{sorted(set(names) - set(prob.params))} missing from prob.params')
                if not accepted:
                    raise AttributeError('all read-only parameters rejected the assignment')
                fault = f'{fault} (parameters {accepted} of {type(prob).__name__})'
            else:
                setattr(target, 'definitely_not_declared_attr', 1)
        else:
            prob = ctrl.MS[0].levels[0].prob
            u0 = prob.u_exact(0.0)
            ctrl.run(u0=u0, t0=0.0, Tend=ctrl.MS[0].levels[0].dt)
    except Exception as e:
        raised = e
    r.check(raised is not None, 'silently-accepted', f'fault {fault!r} on a valid {base["nlevels"]}-level description was accepted without an error (construction and a one-step run)')


@st.composite
def fault_cases(draw):
    return {'fault': draw(st.sampled_from(FAULTS)), 'base': draw(valid_cases())}


# ----------------------------------------------------------------------------------------------- convergence controllers
class UserCC(ConvergenceController):
    def setup(self, controller, params, description, **kwargs):
        return {'control_order': 7, 'knob': 'default', **super().setup(controller, params, description, **kwargs)}


class UserCC2(ConvergenceController):
    def setup(self, controller, params, description, **kwargs):
        return {'control_order': -20, 'knob': 'default', **super().setup(controller, params, description, **kwargs)}

    def dependencies(self, controller, description, **kwargs):
        controller.add_convergence_controller(UserCC, description=description, params={'knob': 'from-dependency', 'extra': 1})


def prop_controllers(case, r):
    cc = {}
    for name, par in case['cc']:
        cls = {'UserCC': UserCC, 'UserCC2': UserCC2, 'StepSizeLimiter': StepSizeLimiter, 'Adaptivity': Adaptivity, 'BasicRestarting': BasicRestartingNonMPI}[name]
        cc[cls] = dict(par)
    r.nontrivial(case)
    desc = {
        'problem_class': testequation0d, 'problem_params': {'lambdas': np.array([-1.0]), 'u0': 1.0}, 'sweeper_class': generic_implicit,
        'sweeper_params': {'num_nodes': 2, 'quad_type': 'RADAU-RIGHT'}, 'level_params': {'dt': 0.1}, 'step_params': {'maxiter': 2}, 'convergence_controllers': cc,
    }  # fmt: skip
    ctrl = controller_nonMPI(num_procs=1, controller_params=F.quiet_controller_params(mssdc_jac=False), description=desc)
    types = [type(c) for c in ctrl.convergence_controllers]
    r.check(len(types) == len(set(types)), 'controller-instantiated-twice', f'{[t.__name__ for t in types]}')
    order = [ctrl.convergence_controllers[i].params.control_order for i in ctrl.convergence_controller_order]
    r.check(order == sorted(order), 'control-order-not-ascending', f'{order}')
    r.check(sorted(ctrl.convergence_controller_order) == list(range(len(ctrl.convergence_controllers))), 'control-order-not-a-permutation', '')
    r.check(CheckConvergence in types and BasicRestartingNonMPI in types, 'base-controllers-missing', '')
    for cls, par in cc.items():
        inst = [c for c in ctrl.convergence_controllers if type(c) is cls]
        if not r.check(len(inst) == 1, 'user-controller-missing', cls.__name__):
            continue
        for k, v in par.items():
            r.check(getattr(inst[0].params, k) == v, 'user-parameter-not-applied', f'{cls.__name__}.{k} = {getattr(inst[0].params, k)!r}, user gave {v!r}')
    if UserCC2 in cc:
        inst = [c for c in ctrl.convergence_controllers if type(c) is UserCC]
        r.check(len(inst) == 1, 'dependency-controller-count', f'{len(inst)}')
        if inst and UserCC in cc and 'knob' in cc[UserCC]:
            r.check(inst[0].params.knob == cc[UserCC]['knob'], 'user-parameter-overridden-by-dependency', f'{inst[0].params.knob!r}')
    if Adaptivity in cc:
        # limiter parameters given to adaptivity are forwarded; user-supplied limiter parameters win
        lim = [c for c in ctrl.convergence_controllers if type(c) is StepSizeLimiter]
        if 'dt_max' in cc[Adaptivity] or StepSizeLimiter in cc:
            r.check(len(lim) == 1, 'limiter-count', f'{len(lim)}')
        if lim and StepSizeLimiter in cc and 'dt_max' in cc[StepSizeLimiter]:
            r.check(lim[0].params.dt_max == cc[StepSizeLimiter]['dt_max'], 'user-parameter-not-applied', f'StepSizeLimiter.dt_max = {lim[0].params.dt_max!r}')


@st.composite
def controller_cases(draw):
    names = draw(st.lists(st.sampled_from(['UserCC', 'UserCC2', 'StepSizeLimiter', 'Adaptivity', 'BasicRestarting']), min_size=1, max_size=5, unique=True))
    out = []
    for n in names:
        par = {}
        if n in ('UserCC', 'UserCC2'):
            if draw(st.booleans()):
                par['knob'] = draw(st.sampled_from(['user', 'x']))
            if draw(st.booleans()):
                par['control_order'] = draw(st.integers(-300, 300))
        elif n == 'StepSizeLimiter':
            if draw(st.booleans()):
                par['dt_max'] = draw(st.sampled_from([0.5, 1.0]))
            if draw(st.booleans()):
                par['dt_slope_max'] = 2.0
        elif n == 'Adaptivity':
            par['e_tol'] = 1e-5
            if draw(st.booleans()):
                par['dt_max'] = draw(st.sampled_from([0.25, 2.0]))
            if draw(st.booleans()):
                par['beta'] = 0.8
        else:
            if draw(st.booleans()):
                par['max_restarts'] = draw(st.integers(1, 5))
        out.append([n, par])
    return {'cc': out}


def known_match(fid, clause, case, failure):
    return False


def clauses(tier):
    return [
        Clause('valid', prop_valid, strategy=valid_cases(), examples={'quick': 500, 'thorough': 10000}),
        Clause('faults', prop_fault, strategy=fault_cases(), examples={'quick': 600, 'thorough': 10000}),
        Clause('controllers', prop_controllers, strategy=controller_cases(), examples={'quick': 300, 'thorough': 5000}),
    ]
