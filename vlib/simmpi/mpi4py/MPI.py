"""Simulated MPI. Every rank is a Python thread; a baton guarantees that exactly one rank runs at a time and ranks
switch only inside simulated MPI calls, so an execution is a pure function of the scheduler's decisions.

Semantics implemented (see vlib/simmpi/README.md):
 * point-to-point matching is FIFO per (communicator, source, dest, tag) (non-overtaking rule); ANY_SOURCE/ANY_TAG unsupported
 * standard-mode sends (send/isend/Send/Isend) complete either eagerly (buffered) or only when matched (rendezvous) -
   the scheduler decides at post time; Issend completes only when matched; receives complete when matched
 * Test() on a completed request may answer False a bounded number of times (scheduler decision)
 * lower-case calls pickle at post time; upper-case calls keep a reference to the buffer, snapshot its bytes at post time,
   transfer the snapshot at match time and report a *buffer violation* if the live buffer differs from the snapshot when
   a rendezvous-mode send is matched, or when the sender first observes completion (Wait / successful Test)
 * collectives match by call order per communicator and complete when all members have arrived
 * deadlock = no runnable rank while some rank has not finished
"""
import pickle
import threading

import numpy as np

SUM, MAX, MIN, LAND, LOR = 'SUM', 'MAX', 'MIN', 'LAND', 'LOR'
INT, DOUBLE, BOOL = 'INT', 'DOUBLE', 'BOOL'
ANY_SOURCE, ANY_TAG = -1, -1


class SimAbort(BaseException):
    """raised inside rank threads to unwind them after a deadlock / violation / failure in another rank"""


class SimError(Exception):
    pass


def _buf(b):
    """mpi4py buffer specs: array | [array, TYPE] | (array, TYPE)"""
    if isinstance(b, (list, tuple)) and len(b) >= 1 and isinstance(b[0], np.ndarray):
        return b[0]
    return b


class World:
    current = None  # the active simulation (one at a time per process)

    def __init__(self, nranks, decisions=None, policy='random', seed=0, max_ops=10**9):
        self.max_ops = max_ops
        self.budget_exhausted = False
        self.n = nranks
        self.cv = threading.Condition()
        self.turn = None
        self.blocked = {}  # rank -> predicate
        self.finished = set()
        self.failed = {}  # rank -> exception
        self.decisions = list(decisions or [])
        self.dpos = 0
        self.lcg = (seed * 2654435761 + 12345) & 0xFFFFFFFF
        self.policy = policy
        self.abort = None
        self.violations = []
        self.stats = {'yields': 0, 'preemptions': 0, 'rendezvous': 0, 'eager': 0, 'test_false': 0, 'p2p': 0, 'collectives': 0, 'decisions_used': 0}
        self.comms = []
        self.local = threading.local()
        self.world_comm = Intracomm(self, list(range(nranks)))
        self.last_rank = None
        self.spin = {}
        self.posted_recvs = 0
        self.polling = set()
        self.idle_mark = -1
        self.idle_polls = 0
        self.timed_out = False

    # ---------------------------------------------------------------- scheduling
    def choose(self, n, kind):
        if n <= 1:
            return 0
        if self.dpos < len(self.decisions):
            d = self.decisions[self.dpos]
            self.dpos += 1
            self.stats['decisions_used'] += 1
            return d % n
        if self.policy == 'fifo':
            return 0
        self.lcg = (self.lcg * 1103515245 + 12345) & 0x7FFFFFFF
        return (self.lcg >> 8) % n

    def rank(self):
        return self.local.rank

    def progress_count(self):
        return self.stats['p2p'] + self.stats['collectives'] + len(self.finished) + self.stats['eager'] + self.stats['rendezvous'] + self.posted_recvs

    def others_enabled(self, me):
        return any(r != me for r in self._enabled())

    def _enabled(self):
        out = []
        for r in range(self.n):
            if r in self.finished:
                continue
            pred = self.blocked.get(r)
            if pred is None or pred():
                out.append(r)
        return out

    def _pick_next(self, me):
        en = self._enabled()
        if not en:
            if len(self.finished) < self.n:
                self.abort = SimError(f'deadlock: ranks {sorted(set(range(self.n)) - self.finished)} are blocked: ' + '; '.join(f'{r}: {getattr(self.blocked.get(r), "what", "?")}' for r in sorted(set(range(self.n)) - self.finished)))
                self.violations.append(('deadlock', str(self.abort)))
            self.turn = None
            self.cv.notify_all()
            return
        # prefer to keep running the same rank in 'fifo', otherwise scheduler decides
        pref = [r for r in en if r not in self.polling] or en  # ranks that only poll come last
        if self.policy == 'fifo' and me in pref and self.dpos >= len(self.decisions):
            nxt = me
        else:
            nxt = pref[self.choose(len(pref), 'rank')]
        if me in en and nxt != me:
            self.stats['preemptions'] += 1
        self.turn = nxt
        self.cv.notify_all()

    def yield_point(self, pred=None, what=''):
        """called by the running rank inside an MPI call; optionally blocks until pred() holds"""
        me = self.rank()
        with self.cv:
            self.stats['yields'] += 1
            if self.stats['yields'] > self.max_ops and self.abort is None:
                # count-based budget (no clock): the caller decides what a run that needs this many MPI calls means
                self.abort = SimError(f'operation budget exhausted: more than {self.max_ops} MPI calls')
                self.budget_exhausted = True
                self.turn = None
                self.cv.notify_all()
            if pred is not None:
                pred.what = what
                self.blocked[me] = pred
            else:
                self.blocked.pop(me, None)
            self._pick_next(me)
            while True:
                if self.abort is not None:
                    raise SimAbort()
                if self.turn == me and (pred is None or pred()):
                    self.blocked.pop(me, None)
                    return
                if self.turn == me:  # chosen although not enabled (cannot happen), re-pick
                    self._pick_next(me)
                self.cv.wait(timeout=30)

    def start_rank(self, r):
        self.local.rank = r
        with self.cv:
            while self.turn != r:
                if self.abort is not None:
                    raise SimAbort()
                self.cv.wait(timeout=30)

    def finish_rank(self, r, exc=None):
        with self.cv:
            self.finished.add(r)
            self.blocked.pop(r, None)
            if exc is not None and not isinstance(exc, SimAbort):
                self.failed[r] = exc
                if self.abort is None:
                    self.abort = SimError(f'rank {r} raised {type(exc).__name__}: {exc}')
            if self.abort is not None:
                self.turn = None
                self.cv.notify_all()
                return
            self._pick_next(r)

    def run(self, target):
        """target(rank, comm) is executed by every rank; returns list of results (or raises SimError info in .abort)"""
        World.current = self
        results = [None] * self.n
        threads = []

        def body(r):
            try:
                self.start_rank(r)
                results[r] = target(r, self.world_comm)
                self.finish_rank(r)
            except SimAbort:
                self.finish_rank(r, SimAbort())
            except BaseException as e:  # noqa
                self.finish_rank(r, e)

        for r in range(self.n):
            t = threading.Thread(target=body, args=(r,), daemon=True)
            threads.append(t)
        for t in threads:
            t.start()
        with self.cv:
            self.turn = self.choose(self.n, 'rank') if self.policy != 'fifo' else 0
            self.cv.notify_all()
        for t in threads:
            t.join(timeout=300)
        if any(t.is_alive() for t in threads):
            with self.cv:
                self.abort = self.abort or SimError('simulation timed out (threads still alive)')
                self.timed_out = True
                self.cv.notify_all()
            for t in threads:
                t.join(timeout=10)
        # finalisation checks (receives left over after an aborted run are consequences of the abort, not findings)
        for c in self.comms:
            for key, q in c.recvq.items():
                for rq in q:
                    if self.abort is None and not rq.matched and not rq.cancelled:
                        self.violations.append(('unmatched-receive', f'comm {c.cid}: receive by rank {key[1]} from {key[0]} tag {key[2]} never matched'))
            c.unmatched_sends = sum(1 for q in c.sendq.values() for s in q if not s.matched and not s.cancelled)
        World.current = None
        return results


class Request:
    def __init__(self, world, kind, comm):
        self.world = world
        self.kind = kind
        self.comm = comm
        self.matched = False
        self.complete_flag = False
        self.cancelled = False
        self.observed = False
        self.buf = None
        self.snapshot = None
        self.payload = None
        self.eager = False
        self.test_delay = 0
        self.owner = world.rank()
        self.on_complete = None
        self.flagged = False

    def _is_complete(self):
        return self.cancelled or self.complete_flag or (self.kind == 'send' and self.eager) or self.matched

    def _observe(self):
        if self.observed:
            return
        self.observed = True
        if self.kind == 'send' and self.buf is not None and self.snapshot is not None and not self.cancelled:
            if np.asarray(self.buf).tobytes() != self.snapshot and not self.flagged:
                self.flagged = True
                self.world.violations.append(('buffer-modified-before-send-completed', f'rank {self.owner}: buffer of a non-blocking send changed between post and completion'))
        if self.on_complete:
            self.on_complete()

    def Test(self):
        w = self.world
        me = w.rank()
        if w.spin.get(me) == w.progress_count():
            # the same rank polls again and nothing has happened in between: let ranks that can make progress run first (fair polling)
            w.polling.add(me)
        w.yield_point(None, 'Test')
        w.polling.discard(me)
        w.spin[me] = w.progress_count()
        # livelock = deadlock of polling ranks: nobody has made progress during many consecutive unsuccessful polls (count based, no clock)
        if w.idle_mark != w.progress_count():
            w.idle_mark, w.idle_polls = w.progress_count(), 0
        if not self._is_complete():
            w.idle_polls += 1
            if w.idle_polls > 2000 * w.n:
                with w.cv:
                    if w.abort is None:
                        w.abort = SimError(f'deadlock (livelock): no progress during {w.idle_polls} consecutive unsuccessful Test() calls; rank {me} polls a {self.kind} request that cannot complete')
                        w.violations.append(('deadlock', str(w.abort)))
                    w.turn = None
                    w.cv.notify_all()
                raise SimAbort()
        if self._is_complete():
            if self.test_delay > 0:
                self.test_delay -= 1
                w.stats['test_false'] += 1
                return False
            self._observe()
            return True
        return False

    test = Test

    def Wait(self):
        w = self.world
        w.yield_point(lambda: self._is_complete(), f'Wait({self.kind})')
        self._observe()
        return True

    wait = Wait

    def Cancel(self):
        self.cancelled = True

    def Free(self):
        pass

    def __eq__(self, other):
        return self is other

    def __hash__(self):
        return id(self)


REQUEST_NULL = object()


class _PickleRequest(Request):
    def wait(self):
        Request.Wait(self)
        return self.payload


class Intracomm:
    _ids = 0

    def __init__(self, world, members):
        self.world = world
        self.members = list(members)  # world ranks, index = local rank
        Intracomm._ids += 1
        self.cid = Intracomm._ids
        self.sendq = {}  # (src, dst, tag) -> list of send Requests (local ranks)
        self.recvq = {}
        self.coll = {}  # seq -> dict(local rank -> contribution)
        self.coll_seq = {}  # local rank -> next seq
        self.coll_done = {}
        world.comms.append(self)

    # ------------------------------------------------------------ basics
    @property
    def rank(self):
        return self.members.index(self.world.rank())

    @property
    def size(self):
        return len(self.members)

    def Get_rank(self):
        return self.rank

    def Get_size(self):
        return self.size

    def Free(self):
        pass

    # ------------------------------------------------------------ point to point
    def _try_match(self, key):
        sq = self.sendq.get(key, [])
        rq = self.recvq.get(key, [])
        while True:
            # queues hold pending requests only (matched / cancelled ones are dropped from the head), so matching stays O(1)
            while sq and (sq[0].matched or sq[0].cancelled):
                sq.pop(0)
            while rq and (rq[0].matched or rq[0].cancelled):
                rq.pop(0)
            s = next((x for x in sq if not x.matched and not x.cancelled), None)
            r = next((x for x in rq if not x.matched and not x.cancelled), None)
            if s is None or r is None:
                return
            s.matched = r.matched = True
            if s.buf is not None and s.snapshot is not None and not s.eager and not s.flagged and np.asarray(s.buf).tobytes() != s.snapshot:
                # a rendezvous-mode send completes when it is matched: the live buffer must still hold what was posted
                s.flagged = True
                self.world.violations.append(('buffer-modified-before-send-completed', f'rank {s.owner}: buffer of a non-blocking send (tag {key[2]} to {key[1]}) changed between post and match'))
            if r.buf is not None:  # upper-case receive: copy data of the posted message into the buffer
                data = np.frombuffer(s.snapshot, dtype=np.asarray(s.buf).dtype).reshape(np.asarray(s.buf).shape) if s.snapshot is not None else s.payload
                np.asarray(r.buf)[...] = np.asarray(data).reshape(np.asarray(r.buf).shape)
            else:
                r.payload = pickle.loads(s.payload) if isinstance(s.payload, (bytes, bytearray)) else s.payload
            self.world.stats['p2p'] += 1

    def _post_send(self, buf, dest, tag, sync, lower):
        w = self.world
        req = (_PickleRequest if lower else Request)(w, 'send', self)
        if lower:
            req.payload = pickle.dumps(buf)
        else:
            b = _buf(buf)
            req.buf = b
            req.snapshot = np.asarray(b).tobytes()
        if sync:
            req.eager = False
        else:
            req.eager = w.choose(2, 'eager') == 0
        w.stats['eager' if req.eager else 'rendezvous'] += 1
        req.test_delay = w.choose(3, 'test')
        key = (self.rank, dest, tag)
        self.sendq.setdefault(key, []).append(req)
        self._try_match(key)
        return req

    def _post_recv(self, buf, source, tag, lower):
        w = self.world
        req = (_PickleRequest if lower else Request)(w, 'recv', self)
        if not lower:
            req.buf = _buf(buf)
        req.test_delay = w.choose(3, 'test')
        key = (source, self.rank, tag)
        w.posted_recvs += 1
        self.recvq.setdefault(key, []).append(req)
        self._try_match(key)
        return req

    def Isend(self, buf, dest=0, tag=0):
        self.world.yield_point(None, 'Isend')
        return self._post_send(buf, dest, tag, False, False)

    def Issend(self, buf, dest=0, tag=0):
        self.world.yield_point(None, 'Issend')
        return self._post_send(buf, dest, tag, True, False)

    def Send(self, buf, dest=0, tag=0):
        self.world.yield_point(None, 'Send')
        req = self._post_send(buf, dest, tag, False, False)
        req.Wait()

    def Irecv(self, buf, source=0, tag=0):
        self.world.yield_point(None, 'Irecv')
        return self._post_recv(buf, source, tag, False)

    def Recv(self, buf, source=0, tag=0):
        self.world.yield_point(None, 'Recv')
        req = self._post_recv(buf, source, tag, False)
        req.Wait()

    def isend(self, obj, dest=0, tag=0):
        self.world.yield_point(None, 'isend')
        return self._post_send(obj, dest, tag, False, True)

    def send(self, obj, dest=0, tag=0):
        self.world.yield_point(None, 'send')
        req = self._post_send(obj, dest, tag, False, True)
        Request.Wait(req)

    def recv(self, buf=None, source=0, tag=0):
        self.world.yield_point(None, 'recv')
        req = self._post_recv(None, source, tag, True)
        Request.Wait(req)
        return req.payload

    def irecv(self, buf=None, source=0, tag=0):
        self.world.yield_point(None, 'irecv')
        return self._post_recv(None, source, tag, True)

    # ------------------------------------------------------------ collectives
    def _collective(self, name, contribution, finish):
        w = self.world
        me = self.rank
        seq = self.coll_seq.get(me, 0)
        self.coll_seq[me] = seq + 1
        slot = self.coll.setdefault(seq, {'name': name, 'data': {}})
        if slot['name'] != name:
            w.violations.append(('collective-mismatch', f'comm {self.cid}: rank {me} calls {name} while others call {slot["name"]} (collective #{seq})'))
            w.abort = w.abort or SimError('collective mismatch')
        slot['data'][me] = contribution
        w.stats['collectives'] += 1
        w.yield_point(lambda: len(slot['data']) == self.size, f'{name}#{seq} on comm {self.cid} ({len(slot["data"])}/{self.size} arrived)')
        return finish(slot['data'])

    def Barrier(self):
        self._collective('Barrier', None, lambda d: None)

    barrier = Barrier

    def bcast(self, obj=None, root=0):
        return self._collective('bcast', pickle.dumps(obj) if self.rank == root else None, lambda d: pickle.loads(d[root]))

    def Bcast(self, buf, root=0):
        b = _buf(buf)
        data = self._collective('Bcast', np.asarray(b).tobytes() if self.rank == root else None, lambda d: d[root])
        if self.rank != root:
            arr = np.asarray(b)
            arr[...] = np.frombuffer(data, dtype=arr.dtype).reshape(arr.shape)

    def Ibcast(self, buf, root=0):
        b = _buf(buf)
        w = self.world
        me = self.rank
        seq = self.coll_seq.get(me, 0)
        self.coll_seq[me] = seq + 1
        slot = self.coll.setdefault(seq, {'name': 'Ibcast', 'data': {}})
        slot['data'][me] = np.asarray(b).tobytes() if me == root else None
        req = Request(w, 'ibcast', self)
        if me == root:
            req.complete_flag = True
        else:
            def done():
                arr = np.asarray(b)
                arr[...] = np.frombuffer(slot['data'][root], dtype=arr.dtype).reshape(arr.shape)

            req.on_complete = done
            req._is_complete = lambda: req.cancelled or root in slot['data']
        w.yield_point(None, 'Ibcast')
        return req

    def allgather(self, obj):
        return self._collective('allgather', pickle.dumps(obj), lambda d: [pickle.loads(d[i]) for i in range(self.size)])

    def gather(self, obj, root=0):
        res = self._collective('gather', pickle.dumps(obj), lambda d: [pickle.loads(d[i]) for i in range(self.size)])
        return res if self.rank == root else None

    @staticmethod
    def _reduce(vals, op):
        if op == SUM:
            out = vals[0]
            for v in vals[1:]:
                out = out + v
            return out
        if op == MAX:
            return max(vals)
        if op == MIN:
            return min(vals)
        if op == LAND:
            return all(bool(v) for v in vals)
        if op == LOR:
            return any(bool(v) for v in vals)
        raise NotImplementedError(op)

    def allreduce(self, sendobj=None, op=SUM):
        return self._collective('allreduce', sendobj, lambda d: self._reduce([d[i] for i in range(self.size)], op))

    def reduce(self, sendobj=None, op=SUM, root=0):
        res = self._collective('reduce', sendobj, lambda d: self._reduce([d[i] for i in range(self.size)], op))
        return res if self.rank == root else None

    def Allreduce(self, sendbuf, recvbuf, op=SUM):
        s = np.array(_buf(sendbuf), copy=True)
        res = self._collective('Allreduce', s, lambda d: self._np_reduce([d[i] for i in range(self.size)], op))
        np.asarray(_buf(recvbuf))[...] = res

    def Reduce(self, sendbuf, recvbuf, op=SUM, root=0):
        s = np.array(_buf(sendbuf), copy=True)
        res = self._collective('Reduce', s, lambda d: self._np_reduce([d[i] for i in range(self.size)], op))
        if self.rank == root:
            np.asarray(_buf(recvbuf))[...] = res

    @staticmethod
    def _np_reduce(vals, op):
        # rank order, as a tree-less reference reduction (MPI allows any order; results may differ in the last bits)
        out = np.array(vals[0], copy=True)
        for v in vals[1:]:
            if op == SUM:
                out = out + v
            elif op == MAX:
                out = np.maximum(out, v)
            elif op == MIN:
                out = np.minimum(out, v)
            else:
                raise NotImplementedError(op)
        return out

    def Split(self, color=0, key=0):
        me = self.rank
        info = self._collective('Split', (int(color) if color is not None else None, key, self.members[me]), lambda d: d)
        # every member builds the same partition; communicator objects are shared through the collective slot
        seq = self.coll_seq[me] - 1
        slot = self.coll[seq]
        if 'comms' not in slot:
            groups = {}
            for lr in range(self.size):
                col, k, wr = info[lr]
                groups.setdefault(col, []).append((k, lr, wr))
            slot['comms'] = {col: Intracomm(self.world, [wr for k, lr, wr in sorted(g)]) for col, g in groups.items()}
        return slot['comms'][int(color) if color is not None else None]


Comm = Intracomm


class _WorldProxy:
    """MPI.COMM_WORLD resolves to the communicator of the running simulation"""

    def __getattr__(self, name):
        w = World.current
        if w is None:
            raise RuntimeError('no simulated MPI world is running')
        return getattr(w.world_comm, name)


COMM_WORLD = _WorldProxy()


def Finalize():
    pass
