"""C18 - finite-difference stencils and matrices are exact to their stated order.

Oracle: exact rational weights (fractions, Vandermonde solve); expected matrices built row by row
from those weights (wrap modulo size for periodic, independent closure construction for boundaries);
polynomial reproduction A p + b = p^(d) for monomials in a centred, scaled grid variable.
"""

import math
from fractions import Fraction

import numpy as np
from hypothesis import strategies as st

from vlib.runner import Clause

from pySDC.helpers import problem_helper as ph

PROPERTY = 'C18'
LEVEL = 'exploration'
RULE = (
    'stencil clause: exhaustive derivative 1..4 x order 1..8 x {center(admissible),forward,backward,upwind} plus generated '
    'integer offset sets in [-6,6]; matrix clauses: Hypothesis draws derivative, order, layout (incl. custom offsets), size from the '
    'stencil width to 40, dx, dim 1..3, periodic or {dirichlet,neumann}^2 with boundary values, reduce flag, neumann order. '
    'Non-trivial = custom offsets, or non-periodic with non-zero boundary data, or dim >= 2; distinct = full parameter tuple.'
)
ASSUMPTIONS = [
    'float weights are compared with exact rational weights to 1e-9*max|w| (Vandermonde solve in double precision)',
    'boundary values in dim >= 2 are the same constant on all sides (the API has one value per side of the 1-D operator)',
]

EPS = np.finfo(float).eps


def exact_weights(derivative, offsets):
    """Rational weights w with sum_j w_j s_j^k = k! * [k == derivative], k < n (Gaussian elimination in Fractions)."""
    n = len(offsets)
    A = [[Fraction(int(s)) ** k for s in offsets] for k in range(n)]
    rhs = [Fraction(math.factorial(k)) if k == derivative else Fraction(0) for k in range(n)]
    for c in range(n):
        p = next(i for i in range(c, n) if A[i][c] != 0)
        A[c], A[p] = A[p], A[c]
        rhs[c], rhs[p] = rhs[p], rhs[c]
        for i in range(n):
            if i != c and A[i][c] != 0:
                f = A[i][c] / A[c][c]
                A[i] = [a - f * b for a, b in zip(A[i], A[c])]
                rhs[i] -= f * rhs[c]
    return [rhs[i] / A[i][i] for i in range(n)]


def std_offsets(derivative, order, kind):
    """Independent statement of the documented layouts."""
    if kind == 'center':
        n = order + derivative - (1 if derivative % 2 == 0 else 0)
        return [i - n // 2 for i in range(n)]
    n = order + derivative
    if kind == 'forward':
        return list(range(n))
    if kind == 'backward':
        return [-i for i in range(n)][::-1]
    if kind == 'upwind':
        if n <= 3:
            return [-i for i in range(n)][::-1]
        return [-(n - 2) + i for i in range(n - 1)] + [1]
    raise ValueError(kind)


def center_ok(derivative, order):
    return derivative % 2 == 1 or order % 2 == 0


def exactness_degree(derivative, order, offsets, custom):
    """polynomials of degree < this are differentiated exactly"""
    return len(offsets) if custom else derivative + order


def call_stencil(case):
    if case.get('steps') is not None:
        return ph.get_finite_difference_stencil(derivative=case['derivative'], steps=np.array(case['steps']))
    return ph.get_finite_difference_stencil(derivative=case['derivative'], order=case['order'], stencil_type=case['kind'])


# ------------------------------------------------------------------ clause 1: stencil weights
def prop_stencil(case, r):
    d = case['derivative']
    custom = case.get('steps') is not None
    offs = sorted(case['steps']) if custom else std_offsets(d, case['order'], case['kind'])
    r.label('custom' if custom else case['kind'], f'd={d}')
    coeff, steps = call_stencil(case)
    r.nontrivial([d, case.get('order'), case.get('kind'), case.get('steps')])
    if not r.check(list(map(int, steps)) == list(offs), 'offsets', f'{list(steps)} vs {offs}'):
        return
    w = exact_weights(d, offs)
    wf = np.array([float(x) for x in w])
    scale = np.abs(wf).max()
    r.close(np.abs(np.asarray(coeff, dtype=float) - wf).max(), 1e-9 * scale, 'weights', f'{case}')
    # the rational weights really have the claimed exactness (guards the oracle and the claimed degree)
    deg = exactness_degree(d, case.get('order'), offs, custom)
    for k in range(deg):
        val = sum(wj * Fraction(int(s)) ** k for wj, s in zip(w, offs))
        exp = Fraction(math.factorial(k)) if k == d else Fraction(0)
        if val != exp:
            r.fail('claimed-exactness', f'degree {k}: {val} != {exp} for {case}')
            break
    # and the float weights reproduce it to rounding
    for k in range(deg):
        val = float(np.dot(np.asarray(coeff, dtype=float), np.array(offs, dtype=float) ** k))
        exp = float(math.factorial(k)) if k == d else 0.0
        mag = float(np.dot(np.abs(wf), np.abs(np.array(offs, dtype=float)) ** k)) + 1.0
        r.close(abs(val - exp), 1e-9 * mag, 'float-exactness', f'degree {k} {case}')


def stencil_grid(tier):
    out = []
    for d in range(1, 5):
        for o in range(1, 9):
            for kind in ['center', 'forward', 'backward', 'upwind']:
                if kind == 'center' and not center_ok(d, o):
                    continue
                out.append({'derivative': d, 'order': o, 'kind': kind, 'steps': None})
    return out


@st.composite
def offset_sets(draw, min_n=None, derivative=None, lo=-6, hi=6, max_n=9):
    d = derivative if derivative is not None else draw(st.integers(1, 4))
    n = draw(st.integers(max(d + 1, min_n or 0, 3), max_n))
    offs = draw(st.lists(st.integers(lo, hi), min_size=n, max_size=n, unique=True))
    return d, sorted(offs)


@st.composite
def custom_stencils(draw):
    d, offs = draw(offset_sets())
    perm = draw(st.permutations(offs))  # user-supplied order is arbitrary
    return {'derivative': d, 'order': None, 'kind': None, 'steps': list(perm)}


# ------------------------------------------------------------------ helpers for matrices
def layout(draw, allow_custom=True):
    d = draw(st.integers(1, 4))
    custom = allow_custom and draw(st.integers(0, 2)) == 0
    if custom:
        _, offs = draw(offset_sets(derivative=d))
        order = draw(st.integers(1, 6))
        return d, order, None, offs
    kind = draw(st.sampled_from(['center', 'forward', 'backward', 'upwind']))
    order = draw(st.integers(1, 8))
    if kind == 'center' and not center_ok(d, order):
        order += 1
    return d, order, kind, None


def kron_sum(A1, dim):
    n = A1.shape[0]
    I = np.eye(n)
    if dim == 1:
        return A1
    if dim == 2:
        return np.kron(A1, I) + np.kron(I, A1)
    return np.kron(np.kron(A1, I), I) + np.kron(np.kron(I, A1), I) + np.kron(np.kron(I, I), A1)


def kron_vec(b1, dim):
    n = b1.shape[0]
    one = np.ones(n)
    if dim == 1:
        return b1
    if dim == 2:
        return np.kron(b1, one) + np.kron(one, b1)
    return np.kron(np.kron(b1, one), one) + np.kron(np.kron(one, b1), one) + np.kron(np.kron(one, one), b1)


def get_matrix(case, **extra):
    kw = dict(derivative=case['derivative'], order=case['order'], dx=case['dx'], size=case['size'], dim=case['dim'], bc=extra.pop('bc'))
    if case.get('steps') is not None:
        kw['steps'] = np.array(case['steps'])
    else:
        kw['stencil_type'] = case['kind']
    kw.update(extra)
    A, b = ph.get_finite_difference_matrix(**kw)
    return np.asarray(A.todense()), np.asarray(b, dtype=float)


# ------------------------------------------------------------------ clause 2: periodic matrices
def prop_periodic(case, r):
    d, size, dx, dim = case['derivative'], case['size'], case['dx'], case['dim']
    custom = case.get('steps') is not None
    offs = sorted(case['steps']) if custom else std_offsets(d, case['order'], case['kind'])
    contiguous = offs == list(range(offs[0], offs[-1] + 1))
    r.label('custom' if custom else case['kind'], f'dim={dim}', 'contiguous' if contiguous else 'gaps')
    if custom or dim >= 2:
        r.nontrivial([d, case['order'], case['kind'], case.get('steps'), size, dx, dim])
    A, b = get_matrix(case, bc='periodic')
    w = [float(x) for x in exact_weights(d, offs)]
    E1 = np.zeros((size, size))
    for row in range(size):
        for wj, s in zip(w, offs):
            E1[row, (row + s) % size] += wj
    E = kron_sum(E1, dim) / dx**d
    scale = max(abs(x) for x in w) / dx**d
    r.check(A.shape == E.shape, 'shape', f'{A.shape}')
    if A.shape == E.shape:
        r.close(np.abs(A - E).max(), 1e-9 * scale, 'periodic-matrix', f'{case}')
    r.check(b.shape == (size**dim,) and not b.any(), 'periodic-b', 'boundary vector must vanish for periodic BCs')
    # consequence: constants are annihilated, and trigonometric modes are eigenvectors (dim 1)
    if A.shape == E.shape:
        r.close(np.abs(A @ np.ones(A.shape[1])).max(), 1e-9 * scale * len(offs), 'periodic-constants')


@st.composite
def periodic_cases(draw):
    d, order, kind, steps = layout(draw)
    offs = sorted(steps) if steps is not None else std_offsets(d, order, kind)
    width = offs[-1] - offs[0] + 1
    need = max(width, max(abs(offs[0]), abs(offs[-1])) + 1)
    dim = draw(st.sampled_from([1, 1, 1, 2, 3]))
    top = {1: 40, 2: 14, 3: 7}[dim]
    if need > top:
        dim, top = 1, 40
    size = draw(st.integers(need, max(need, top)))
    dx = draw(st.sampled_from([1.0, 0.5, 0.1, 1.0 / 3.0, 0.0123]))
    return {'derivative': d, 'order': order, 'kind': kind, 'steps': steps, 'size': size, 'dx': dx, 'dim': dim}


# ------------------------------------------------------------------ clause 3: Dirichlet / Neumann matrices
def closure_rows(d, order, side, i, reduce):
    """Independent construction of the closure for row i (0-based from the boundary on `side`):
    returns (offsets relative to the row's grid point, rational weights)."""
    if reduce:
        offs = std_offsets(d, 2 * (i + 1), 'center')
    else:
        n = order + d
        offs = list(range(-(i + 1), n - (i + 1))) if side == 0 else list(range(-(n - (i + 2)), i + 2))
    return offs, exact_weights(d, offs)


def expected_bc_1d(case):
    """Expected 1-D matrix and boundary vector (in units dx=1), or None where the closure is geometrically undefined."""
    d, order, size = case['derivative'], case['order'], case['size']
    custom = case.get('steps') is not None
    offs = sorted(case['steps']) if custom else std_offsets(d, order, case['kind'])
    w = exact_weights(d, offs)
    E = [[Fraction(0)] * size for _ in range(size)]
    b = [Fraction(0)] * size
    for row in range(size):
        for wj, s in zip(w, offs):
            if 0 <= row + s < size:
                E[row][row + s] += wj
    for side in (0, 1):
        sw = -offs[0] if side == 0 else offs[-1]
        bc = case['bc'][side]
        val = Fraction(case['val'][side])
        reduce = case['reduce'][side]
        for i in range(max(sw, 0)):
            row = i if side == 0 else size - 1 - i
            coffs, cw = closure_rows(d, order, side, i, reduce)
            E[row] = [Fraction(0)] * size
            b[row] = Fraction(0)
            bw = None
            for wj, s in zip(cw, coffs):
                col = row + s
                if col == -1 and side == 0 or col == size and side == 1:
                    bw = wj
                elif 0 <= col < size:
                    E[row][col] += wj
                else:
                    return None  # closure reaches outside: not geometrically defined
            if bw is None:
                return None
            if bc == 'dirichlet':
                b[row] = val * bw
            else:
                nO = case['neumann_order'][side]
                noffs = list(range(nO + 1)) if side == 0 else list(range(-nO, 1))
                nw = exact_weights(1, noffs)
                n0 = nw[0] if side == 0 else nw[-1]
                for wj, s in zip(nw, noffs):
                    col = (-1 + s) if side == 0 else (size + s)
                    if col in (-1, size):
                        continue
                    if not 0 <= col < size:
                        return None
                    E[row][col] -= bw / n0 * wj
                b[row] = val * bw / n0  # times dx, see caller
    return E, b


def prop_bc(case, r):
    d, order, size, dx, dim = case['derivative'], case['order'], case['size'], case['dx'], case['dim']
    custom = case.get('steps') is not None
    r.label('custom' if custom else case['kind'], f'dim={dim}', *[f'{case["bc"][s]}' for s in (0, 1)])
    if any(case['reduce']):
        r.label('reduce')
    nonzero = any(v != 0 for v in case['val'])
    if nonzero:
        r.label('nonzero-bc')
    if custom or nonzero or dim >= 2:
        r.nontrivial([d, order, case['kind'], case.get('steps'), size, dx, dim, case['bc'], case['val'], case['reduce'], case['neumann_order']])
    bc_params = [
        {'val': float(case['val'][s]), 'reduce': bool(case['reduce'][s]), 'neumann_bc_order': case['neumann_order'][s]} for s in (0, 1)
    ]
    A, b = get_matrix(case, bc=(case['bc'][0], case['bc'][1]), bc_params=bc_params)
    exp = expected_bc_1d(case)
    if exp is None:
        r.discard('closure geometrically undefined for these parameters')
        return
    E1 = np.array([[float(x) for x in row] for row in exp[0]])
    b1 = np.array([float(x) for x in exp[1]])
    # Neumann rows carry a factor dx (value of the derivative times mesh width)
    for side in (0, 1):
        if case['bc'][side] == 'neumann':
            offs = sorted(case['steps']) if custom else std_offsets(d, order, case['kind'])
            sw = -offs[0] if side == 0 else offs[-1]
            for i in range(max(sw, 0)):
                row = i if side == 0 else size - 1 - i
                b1[row] *= dx
    E = kron_sum(E1, dim) / dx**d
    bE = kron_vec(b1, dim) / dx**d
    scale = max(1.0, np.abs(E1).max()) / dx**d
    if not r.check(A.shape == E.shape and b.shape == bE.shape, 'shape', f'{A.shape} {b.shape}'):
        return
    # interior rows apply exactly the stencil
    r.close(np.abs(A - E).max(), 1e-8 * scale, 'bc-matrix', f'{case}')
    bscale = max(1.0, max(abs(float(v)) for v in case['val'])) * scale * max(1.0, dx)
    r.close(np.abs(b - bE).max(), 1e-8 * bscale, 'bc-vector' if dim == 1 else 'bc-vector-nd', f'{case}')

    # ---- polynomial reproduction up to the boundary (dim 1): A p + b = p^(d)
    if dim != 1:
        return
    offs = sorted(case['steps']) if custom else std_offsets(d, order, case['kind'])
    deg = exactness_degree(d, order, offs, custom)  # interior rows
    for side in (0, 1):
        sw = -offs[0] if side == 0 else offs[-1]
        if sw <= 0:
            continue
        if case['reduce'][side]:
            deg = min(deg, d + 2)
        else:
            deg = min(deg, d + order)
        if case['bc'][side] == 'neumann':
            deg = min(deg, case['neumann_order'][side] + 1)
    c = (size + 1) / 2.0
    t = (np.arange(1, size + 1) - c) / c  # scaled grid variable in (-1, 1); boundaries at -1 and +1
    for k in range(deg):
        p = t**k
        dp = np.zeros(size) if k < d else math.factorial(k) / math.factorial(k - d) * t ** (k - d) / (c * dx) ** d
        vals = []
        for side in (0, 1):
            tb = -1.0 if side == 0 else 1.0
            if case['bc'][side] == 'dirichlet':
                vals.append(tb**k)
            else:
                vals.append(0.0 if k == 0 else k * tb ** (k - 1) / (c * dx))
        params = [{'val': vals[s], 'reduce': bool(case['reduce'][s]), 'neumann_bc_order': case['neumann_order'][s]} for s in (0, 1)]
        Ak, bk = get_matrix(case, bc=(case['bc'][0], case['bc'][1]), bc_params=params)
        res = Ak @ p + bk - dp
        rowmag = np.abs(Ak).sum(axis=1) + np.abs(bk) + 1.0
        r.close(np.abs(res / rowmag).max(), 1e-8, 'bc-reproduction', f'degree {k} (< {deg}) {case}')


@st.composite
def bc_cases(draw):
    d, order, kind, steps = layout(draw)
    offs = sorted(steps) if steps is not None else std_offsets(d, order, kind)
    bcs = [draw(st.sampled_from(['dirichlet', 'neumann'])) for _ in (0, 1)]
    reduce = [False, False]
    if d <= 2 and steps is None and kind == 'center' and draw(st.booleans()):
        same = draw(st.booleans())
        reduce = [True, True] if same else [draw(st.booleans()), draw(st.booleans())]
    nO = []
    for s in (0, 1):
        nO.append(order if draw(st.booleans()) else draw(st.integers(1, 6)))
    vals = []
    for s in (0, 1):
        vals.append(draw(st.sampled_from([0.0, 1.0, -2.5, 0.375, 7.0])) if draw(st.booleans()) else 0.0)
    dim = draw(st.sampled_from([1, 1, 1, 2, 3]))
    width = offs[-1] - offs[0] + 1
    sw = max(-offs[0], offs[-1], 0)
    # rows rewritten from the two sides must not collide, closures and Neumann stencils must fit
    need = max(width, 2 * sw + 1, order + d, max(nO) + 1, 2 * (sw + 1) + 1 if any(reduce) else 0) + 1
    top = {1: 40, 2: 14, 3: 7}[dim]
    if need > top:
        dim, top = 1, 40
    if dim >= 2:
        vals = [vals[0], vals[0]]  # one constant boundary value is all the n-D operator can represent
        bcs = [bcs[0], bcs[0]] if draw(st.booleans()) else bcs
    size = draw(st.integers(need, max(need, top)))
    dx = draw(st.sampled_from([1.0, 0.5, 0.1, 1.0 / 3.0, 0.0123]))
    return {
        'derivative': d, 'order': order, 'kind': kind, 'steps': steps, 'size': size, 'dx': dx, 'dim': dim,
        'bc': bcs, 'val': vals, 'reduce': reduce, 'neumann_order': nO,
    }  # fmt: skip


# ----------------------------------------------------------------------------------------------- grids
def prop_grid(case, r):
    """get_1d_grid delivers the points and the spacing the matrices are built for: periodic grids start on the left boundary and
    leave out the right one, Dirichlet/Neumann grids hold the interior points only (the boundary values live in the vector b)"""
    size, bc, a, b = case['size'], case['bc'], case['left'], case['right']
    dx, x = ph.get_1d_grid(size, bc, a, b)
    r.label(bc)
    if size >= 3:
        r.nontrivial([size, bc, a, b])
    L = b - a
    tol = 8 * np.finfo(float).eps * max(abs(a), abs(b), abs(L)) * (size + 2)
    r.check(len(x) == size, 'grid-size', f'{len(x)} points for size {size}')
    if size >= 2:
        r.close(np.abs(np.diff(x) - dx).max(), tol, 'grid-equidistant', f'{bc} size={size} [{a},{b}]: spacing differs from dx={dx!r}')
    if bc == 'periodic':
        r.close(abs(x[0] - a), tol, 'grid-left', f'periodic grid starts at {x[0]!r}, boundary {a!r}')
        r.close(abs(x[-1] + dx - b), tol, 'grid-right', f'periodic grid: last point + dx = {x[-1] + dx!r}, right boundary {b!r}')
    else:
        r.close(abs(x[0] - dx - a), tol, 'grid-left', f'{bc}: first point - dx = {x[0] - dx!r}, left boundary {a!r}')
        r.close(abs(x[-1] + dx - b), tol, 'grid-right', f'{bc}: last point + dx = {x[-1] + dx!r}, right boundary {b!r}')


def grid_enum(tier):
    out = []
    for bc in ('periodic', 'dirichlet', 'neumann', 'dirichlet-zero', 'neumann-zero'):
        for size in (1, 2, 3, 4, 7, 8, 15, 16, 31, 100):
            for a, b in ((0.0, 1.0), (-1.0, 1.0), (-0.5, 0.5), (2.0, 2.5), (-20.0, 20.0), (0.0, 2 * math.pi)):
                out.append({'size': size, 'bc': bc, 'left': a, 'right': b})
    return out



def known_match(fid, clause, case, failure):
    return False


def clauses(tier):
    return [
        Clause('stencil-grid', prop_stencil, enumerate=stencil_grid, exhaustive=True),
        Clause('grid-points', prop_grid, enumerate=grid_enum, exhaustive=True),
        Clause('stencil-custom', prop_stencil, strategy=custom_stencils(), examples={'quick': 600, 'thorough': 10000}),
        Clause('periodic', prop_periodic, strategy=periodic_cases(), examples={'quick': 600, 'thorough': 10000}),
        Clause('boundary', prop_bc, strategy=bc_cases(), examples={'quick': 800, 'thorough': 12000}),
    ]
